"""C26 - repair DCOP constraints and candidate info encode the repair rules.

Decided (structure only): candidate lists exclude the departed agents at every
construction site, orphans are the departed agents' computations, a candidate
computation for an agent requires its replica there, fixed neighbours take their
host from discovery, the info triple keeps its slot order from producer to
consumer; the four constraint factories have the shape of their defining sums
(exactly-one test, capacity comparison, weighted sums keyed through the variable
lookup, scope of the communication constraint).
"""
import ast

from ..model import walk_no_nested, norm, call_name, is_self_attr
from ..facts import FuncFacts, facts_at, count_paths
from ..report import Ctx, AnalysisError
from .. import relrules as R

RM = "pydcop.reparation.removal"
RP = "pydcop.reparation"


def _facts(ff, node):
    return {(norm(t), p) for t, p in facts_at(ff, node)}


def _weighted_sum(fn, unit_func, lookup="var_lookup"):
    """the inner function accumulates, over every keyword argument, <its value> * unit_func(<computation of that variable>), the
    computation being slot 0 of lookup[<variable name>]; returns (accumulator name, ok)"""
    loops = [l for l in fn.body if isinstance(l, ast.For)]
    if len(loops) != 1:
        return None, False
    l = loops[0]
    it = norm(l.iter)
    if it == "kwargs" and isinstance(l.target, ast.Name):
        key, val = l.target.id, f"kwargs[{l.target.id}]"
    elif it == "kwargs.items()" and isinstance(l.target, ast.Tuple) and len(l.target.elts) == 2:
        key, val = norm(l.target.elts[0]), norm(l.target.elts[1])
    else:
        return None, False
    accs = [a for a in l.body if isinstance(a, ast.AugAssign) and isinstance(a.op, ast.Add) and isinstance(a.target, ast.Name)]
    if len(accs) != 1 or any(isinstance(x, (ast.If, ast.Continue, ast.Break)) for x in ast.walk(l)):
        return None, False
    acc = accs[0]
    v = acc.value
    if not (isinstance(v, ast.BinOp) and isinstance(v.op, ast.Mult)):
        return acc.target.id, False
    sides = [v.left, v.right]
    call = next((x for x in sides if isinstance(x, ast.Call) and norm(x.func) == unit_func and len(x.args) == 1), None)
    other = next((x for x in sides if x is not call), None)
    if call is None or other is None or norm(other) != val:
        return acc.target.id, False
    comp = call.args[0]
    ok = False
    if isinstance(comp, ast.Name):
        for a in l.body:
            if isinstance(a, ast.Assign) and isinstance(a.targets[0], ast.Tuple) and len(a.targets[0].elts) == 2 and norm(a.targets[0].elts[0]) == comp.id and norm(a.value) == f"{lookup}[{key}]" \
                    and l.body.index(a) < l.body.index(acc):
                ok = True
    elif norm(comp) == f"{lookup}[{key}][0]":
        ok = True
    init = [a for a in fn.body if isinstance(a, ast.Assign) and norm(a.targets[0]) == acc.target.id and norm(a.value) in ("0", "0.0") and fn.body.index(a) < fn.body.index(l)]
    return acc.target.id, ok and len(init) == 1


def check(ctx: Ctx):
    repo = ctx.repo
    ctx.decided = ("every candidate-agent list built from replica holders removes the departed agents; orphans are exactly the "
                   "computations discovery attributes to the departed agents; an orphan is a candidate for an agent only if that "
                   "agent holds its replica; a neighbour is 'candidate' iff it is itself orphaned, otherwise 'fixed' with the host "
                   "discovery reports; the orphan itself is skipped; the (candidates, fixed, candidate-neighbours) triple keeps its "
                   "order; hosted constraint is 0 iff the sum is exactly 1; capacity constraint is 0 iff remaining - selected "
                   "footprints >= 0; hosting and communication constraints are the weighted sums of their definition over the "
                   "right variables.")
    ctx.undecided = "the numeric value of the constraints on concrete assignments; discovery content at run time."
    ctx.rule("R-FILTER", "lists of candidate agents built from discovery.replica_agents(.) exclude the departed agents")
    ctx.rule("R-ORPHANS", "orphans = computations of the departed agents; candidates for an agent = orphans whose replica it holds")
    ctx.rule("R-NEIGHBORS", "orphaned neighbours are candidates (with surviving replica holders), the others are fixed on their discovery host; self skipped")
    ctx.rule("R-SLOTS", "info triple order (candidate agents, fixed neighbours, candidate neighbours) is the same at producer and consumer")
    ctx.rule("R-HOSTED", "hosted constraint: 0 iff exactly one candidate hosts the computation")
    ctx.rule("R-CAPACITY", "capacity constraint: 0 iff remaining capacity - sum(selected footprints) >= 0")
    ctx.rule("R-SUMS", "hosting / communication costs are sums of (binary variable * unit cost) over the intended variables")

    orph = repo.func(RM, "_removal_orphaned_computations")
    cand = repo.func(RM, "_removal_candidate_agents")
    cfa = repo.func(RM, "_removal_candidate_computations_for_agt")
    info = repo.func(RM, "_removal_candidate_computation_info")
    ainfo = repo.func(RM, "_removal_candidate_agt_info")
    for f in (orph, cand, cfa, info, ainfo):
        ctx.touch(f)
    # ---- filter sites ---------------------------------------------------------
    n_sites = 0
    for f in (cand, info):
        dep = f.params[0] if f is cand else f.params[1]
        for c in ast.walk(f.node):
            if isinstance(c, ast.Call) and norm(c.func) == "discovery.replica_agents":
                n_sites += 1
                # the value must flow into a .difference(departed) before being stored / returned
                holder = _enclosing_stmt(f.node, c)
                txt = norm(holder)
                direct = f".difference({dep})" in txt or f".difference(set({dep}))" in txt
                later = False
                if not direct and isinstance(holder, ast.AugAssign):
                    tgt = norm(holder.target)
                    later = any(isinstance(n, ast.Assign) and norm(n.targets[0]) == tgt and (f".difference(set({dep}))" in norm(n.value) or f".difference({dep})" in norm(n.value))
                                and tgt in norm(n.value) and n.lineno > holder.lineno for n in walk_no_nested(f.node))
                ctx.check(direct or later, "R-FILTER", f"{f.name}: replica holders of {norm(c.args[0])} minus departed", f, holder,
                          "a departed agent still listed as replica holder must never become a repair candidate")
    ctx.floor("R-FILTER", 3)
    # ---- orphans ------------------------------------------------------------------
    t = norm(orph.node)
    ctx.check(f"for agt in {orph.params[0]}" in t and "orphaned += discovery.agent_computations(agt)" in t and "return orphaned" in t, "R-ORPHANS",
              "orphans = computations of each departed agent", orph, orph.node, "")
    ffc = FuncFacts(cfa.node)
    ap = [c for c in ast.walk(cfa.node) if isinstance(c, ast.Call) and norm(c.func) == "comps.append"]
    ctx.check(len(ap) == 1 and (f"{cfa.params[0]} in discovery.replica_agents(o)", True) in _facts(ffc, ap[0]) and norm(ap[0].args[0]) == "o", "R-ORPHANS",
              "candidate computations of an agent = orphans whose replica it holds", cfa, ap[0] if ap else cfa.node, "")
    t = norm(cand.node)
    ctx.check(f"orphaned = _removal_orphaned_computations({cand.params[0]}, discovery)" in t and "for o in orphaned" in t, "R-ORPHANS", "candidate agents range over all orphans", cand, cand.node, "")
    # ---- neighbours -------------------------------------------------------------------
    p_orphan, p_dep, p_cg = info.params[:3]
    ffi = FuncFacts(info.node)
    lp = [n for n in walk_no_nested(info.node) if isinstance(n, ast.For) and norm(n.iter) == f"{p_cg}.neighbors({p_orphan})"]
    ok = len(lp) == 1
    if ok:
        nv = norm(lp[0].target)
        sk = [s for s in lp[0].body if isinstance(s, ast.If) and norm(s.test) == f"{nv} == {p_orphan}" and isinstance(s.body[0], ast.Continue)]
        cn = [n for n in ast.walk(lp[0]) if isinstance(n, ast.Assign) and isinstance(n.targets[0], ast.Subscript) and norm(n.targets[0].value) == "candidates_neighbors"]
        fx = [n for n in ast.walk(lp[0]) if isinstance(n, ast.Assign) and isinstance(n.targets[0], ast.Subscript) and norm(n.targets[0].value) == "fixed_neighbors"]
        ok = len(sk) == 1 and len(cn) == 1 and len(fx) == 1
        if ok:
            ok = (f"{nv} in orphaned_computation", True) in _facts(ffi, cn[0]) and (f"{nv} in orphaned_computation", False) in _facts(ffi, fx[0]) \
                and norm(fx[0].value) == f"discovery.computation_agent({nv})" and norm(cn[0].targets[0].slice) == nv and norm(fx[0].targets[0].slice) == nv \
                and f"discovery.replica_agents({nv})" in norm(cn[0].value)
    ctx.check(ok, "R-NEIGHBORS", "neighbour classification", info, lp[0] if lp else info.node,
              "each neighbour but the orphan itself is a candidate iff it is orphaned too, otherwise it is fixed on the agent discovery reports")
    oc = [n for n in walk_no_nested(info.node) if isinstance(n, ast.Assign) and norm(n.targets[0]) == "orphaned_computation"]
    ctx.check(len(oc) == 1 and norm(oc[0].value) == f"_removal_orphaned_computations({p_dep}, discovery)", "R-NEIGHBORS", "orphaned set computed from the departed agents", info, oc[0] if oc else info.node, "")
    # ---- slots ----------------------------------------------------------------------------
    rets = [r for r in walk_no_nested(info.node) if isinstance(r, ast.Return)]
    ok = len(rets) == 1 and norm(rets[0].value) == "(candidate_agents, fixed_neighbors, candidates_neighbors)"
    comm = repo.func(RP, "create_agent_comp_comm_constraint")
    ctx.touch(comm)
    un = [n for n in walk_no_nested(comm.node) if isinstance(n, ast.Assign) and isinstance(n.targets[0], ast.Tuple) and norm(n.value) == comm.params[2]]
    ok = ok and len(un) == 1 and [norm(e) for e in un[0].targets[0].elts] == ["agts", "fixed_neighbors", "candidate_neighbors"]
    ctx.check(ok, "R-SLOTS", "triple order preserved from removal info to the communication constraint", info, rets[0] if rets else info.node,
              "(candidate agents, fixed neighbours, candidate neighbours): swapping the two dicts mixes hosts and candidate lists")
    t = norm(ainfo.node)
    ctx.check(f"for c in _removal_candidate_computations_for_agt({ainfo.params[0]}, orphaned, discovery)" in t and
              f"info[c] = _removal_candidate_computation_info(c, {ainfo.params[1]}, {ainfo.params[2]}, discovery)" in t, "R-SLOTS", "agent info = one entry per candidate computation of that agent", ainfo, ainfo.node, "")

    # ---- constraint factories -----------------------------------------------------------------
    hosted = repo.func(RP, "create_computation_hosted_constraint")
    capa = repo.func(RP, "create_agent_capacity_constraint")
    hcost = repo.func(RP, "create_agent_hosting_constraint")
    for f in (hosted, capa, hcost):
        ctx.touch(f)

    def inner(f, name):
        for n in ast.walk(f.node):
            if isinstance(n, ast.FunctionDef) and n.name == name:
                return n
        raise AnalysisError(f"{f.qualname}: inner function {name} not found")
    h = inner(hosted, "hosted")
    rets = [r for r in ast.walk(h) if isinstance(r, ast.Return)]
    ok = len(rets) == 1 and isinstance(rets[0].value, ast.IfExp) and norm(rets[0].value.test) in ("s == 1", "1 == s") and norm(rets[0].value.body) == "0" \
        and isinstance(rets[0].value.orelse, ast.Constant) and rets[0].value.orelse.value > 0
    if not ok:
        # statement form: if <sum> == 1: return 0 else: return <positive>
        ifs_ = [i for i in h.body if isinstance(i, ast.If)]
        ok = len(ifs_) == 1 and norm(ifs_[0].test) in ("s == 1", "1 == s") and [norm(x) for x in ifs_[0].body] == ["return 0"] and len(ifs_[0].orelse) == 1 and isinstance(ifs_[0].orelse[0], ast.Return) \
            and isinstance(ifs_[0].orelse[0].value, ast.Constant) and ifs_[0].orelse[0].value.value > 0
    sm = [n for n in ast.walk(h) if isinstance(n, ast.Assign) and norm(n.targets[0]) == "s"]
    ok = ok and len(sm) == 1 and norm(sm[0].value) in ("sum([v for v in kwargs.values()])", "sum(kwargs.values())", "sum((v for v in kwargs.values()))", "sum(list(kwargs.values()))")
    ctx.check(ok, "R-HOSTED", "0 iff the sum of all the computation's binary variables is exactly 1", hosted, rets[0] if rets else h,
              "`>= 1` or `<= 1` would accept duplicated or missing hosts")
    rel = [c for c in ast.walk(hosted.node) if isinstance(c, ast.Call) and call_name(c) == "NAryFunctionRelation"]
    ctx.check(len(rel) == 1 and norm(rel[0].args[1]) == f"list({hosted.params[1]}.values())", "R-HOSTED", "scope = all candidate variables of the computation", hosted, rel[0] if rel else hosted.node, "")
    c = inner(capa, "capacity")
    t = norm(c)
    rets = [r for r in ast.walk(c) if isinstance(r, ast.Return)]
    ok = len(rets) == 1 and isinstance(rets[0].value, ast.IfExp) and norm(rets[0].value.test) in ("repair_capa >= 0", "0 <= repair_capa") and norm(rets[0].value.body) == "0"
    accn, okw = _weighted_sum(c, capa.params[2])
    ok = ok and okw and f"repair_capa = {capa.params[1]} - {accn}" in t
    ctx.check(ok, "R-CAPACITY", "0 iff remaining - sum(x * footprint(comp)) >= 0", capa, rets[0] if rets else c,
              "the selected computations' footprints must fit in the remaining capacity (equality allowed)")
    vl = [n for n in walk_no_nested(capa.node) if isinstance(n, ast.Assign) and norm(n.targets[0]) == "var_lookup"]
    ctx.check(len(vl) == 1 and norm(vl[0].value) == f"{{v.name: k for k, v in {capa.params[3]}.items()}}", "R-CAPACITY", "variable name -> (computation, agent) lookup", capa, vl[0] if vl else capa.node, "")
    hc = inner(hcost, "hosting_cost")
    t = norm(hc)
    accn, okw = _weighted_sum(hc, hcost.params[1])
    ctx.check(okw and f"return {accn}" in t, "R-SUMS",
              "hosting cost = sum(x * hosting(comp))", hcost, hc, "")
    cc = inner(comm, "host_cost")
    t = norm(cc)
    a_agt, a_cand, a_info, a_comm, a_bv = comm.params[:5]
    ok = f"locally_hosted = {a_bv}[{a_cand}, {a_agt}].name" in t and f"candidate_cost += kwargs[locally_hosted] * {a_comm}({a_cand}, v, v_agt)" in t \
        and "v_agt = fixed_neighbors[v]" in t and f"arg_name = {a_bv}[v, v_agt].name" in t and f"cost_v += kwargs[arg_name] * {a_comm}({a_cand}, v, v_agt)" in t \
        and "candidate_cost += kwargs[locally_hosted] * cost_v" in t and "for v_agt in candidate_neighbors[v]" in t
    ctx.check(ok, "R-SUMS", "communication cost = x_local * (sum over fixed neighbours + sum over candidate neighbours' possible hosts)", comm, cc, "")
    # every term of a defining sum is added: in each accumulation loop of the four cost functions, every pass of the loop body reaches its `+=` exactly once
    n_terms = 0
    for f_, fn_ in ((hcost, hc), (comm, cc)):
        for lp_ in [l for l in ast.walk(fn_) if isinstance(l, ast.For)]:
            inner_loops = [x for x in ast.walk(lp_) if isinstance(x, ast.For) and x is not lp_]
            accs = [a for a in ast.walk(lp_) if isinstance(a, ast.AugAssign) and isinstance(a.op, ast.Add) and not any(any(n is a for n in ast.walk(il)) for il in inner_loops)]
            if not accs:
                continue
            n_terms += 1
            k_ = count_paths(lp_.body, lambda s_, accs=accs: 1 if s_ in accs else 0).k
            ctx.check(k_.get("fall") == (1, 1) and len(accs) == 1 and "continue" not in k_ and "break" not in k_ and "return" not in k_, "R-SUMS",
                      f"{f_.qualname}: every element of `{norm(lp_.iter)}` contributes its term", f_, lp_,
                      "the cost is the sum over all the listed variables / neighbours: a `continue` (e.g. for a neighbour hosted on the same agent) removes terms from the sum, "
                      "which is wrong for a general communication function")
    ctx.check(n_terms >= 3, "R-SUMS", "accumulation loops of the hosting and communication costs enumerated", comm, cc, f"{n_terms} found")
    n_acc = 0
    for f_ in (hosted, capa, hcost, comm):
        n_acc += R.check_partial_sums(ctx, f_, f_.node, "R-SUMS")
    ctx.check(n_acc >= 1, "R-SUMS", "partial sums inside the constraint factories enumerated", comm, cc, "the per-neighbour partial sum of the communication constraint was not recognised")
    t = norm(comm.node)
    ok = f"scope = [{a_bv}[{a_cand}, {a_agt}]]" in t and f"scope.append({a_bv}[v, v_agt])" in t
    ctx.check(ok, "R-SUMS", "communication constraint scope = own variable + every (candidate neighbour, possible host) variable", comm, comm.node, "")


def _enclosing_stmt(func_node, node):
    best = None
    for n in ast.walk(func_node):
        if isinstance(n, ast.stmt) and not isinstance(n, (ast.FunctionDef, ast.For, ast.If, ast.While, ast.Try, ast.With)) and any(x is node for x in ast.walk(n)):
            best = n
    return best


_R = "pydcop/reparation/removal.py"
_P = "pydcop/reparation/__init__.py"
VARIANTS = [
    ("comm_skips_neighbours_on_same_agent", "pydcop/reparation/__init__.py", "            v_agt = fixed_neighbors[v]\n            candidate_cost +=", "            v_agt = fixed_neighbors[v]\n            if v_agt == agt_name:\n                continue\n            candidate_cost +=", "break", "R-SUMS"),
    ("comm_partial_sum_hoisted", "pydcop/reparation/__init__.py", "        for v in candidate_neighbors:\n            cost_v = 0.0\n            for v_agt in candidate_neighbors[v]:", "        cost_v = 0.0\n        for v in candidate_neighbors:\n            for v_agt in candidate_neighbors[v]:", "break", "R-SUMS"),
    ("candidates_keep_departed", _R, "    candidate_agents = list(set(candidate_agents).difference(set(departed)))\n", "    candidate_agents = list(set(candidate_agents))\n", "break", "R-FILTER"),
    ("info_keep_departed", _R, "    candidate_agents = list(discovery.replica_agents(orphan).difference(\n        departed))", "    candidate_agents = list(discovery.replica_agents(orphan))", "break", "R-FILTER"),
    ("neighbor_candidates_keep_departed", _R, "                list(discovery.replica_agents(n).difference(departed))", "                list(discovery.replica_agents(n))", "break", "R-FILTER"),
    ("self_not_skipped", _R, "        if n == orphan:\n            continue\n", "", "break", "R-NEIGHBORS"),
    ("classification_inverted", _R, "        if n in orphaned_computation:\n            candidates_neighbors[n]", "        if n not in orphaned_computation:\n            candidates_neighbors[n]", "break", "R-NEIGHBORS"),
    ("triple_swapped", _R, "    return candidate_agents, fixed_neighbors, candidates_neighbors", "    return candidate_agents, candidates_neighbors, fixed_neighbors", "break", "R-SLOTS"),
    ("no_replica_needed", _R, "        if agt in discovery.replica_agents(o):\n            comps.append(o)", "        comps.append(o)", "break", "R-ORPHANS"),
    ("hosted_at_least_one", _P, "        return 0 if s == 1 else 10000", "        return 0 if s >= 1 else 10000", "break", "R-HOSTED"),
    ("capacity_strict", _P, "        return 0 if repair_capa >= 0 else 10000", "        return 0 if repair_capa > 0 else 10000", "break", "R-CAPACITY"),
    ("capacity_unweighted", _P, "            orphaned_footprint += kwargs[v_name] * footprint_func(comp)", "            orphaned_footprint += footprint_func(comp)", "break", "R-CAPACITY"),
    ("hosting_wrong_slot", _P, "        for v_name in kwargs:\n            comp, _ = var_lookup[v_name]\n            cost += kwargs[v_name] * hosting_func(comp)", "        for v_name in kwargs:\n            _, comp = var_lookup[v_name]\n            cost += kwargs[v_name] * hosting_func(comp)", "break", "R-SUMS"),
    ("comm_not_gated_by_local", _P, "            candidate_cost += kwargs[locally_hosted] * cost_v", "            candidate_cost += cost_v", "break", "R-SUMS"),
]
