"""C07 - cycle-bounded local search (MGM, MGM2, DSA) finishes after stop_cycle.

Decided, for the three computations, on every syntactic path:

* R-ISOLATED   the no-neighbour region of on_start reaches finished();
* R-CYCLE      the cycle-advance function calls new_cycle() exactly once, tests
               `stop_cycle and cycle_count >= stop_cycle` right after it, finishes
               and sends nothing on that branch, and otherwise posts its value to
               every neighbour;
* R-PROGRESS   every path that closes a phase (all awaited messages received)
               performs the sends of the next phase and enters it: nobody is left
               waiting for a message that is never sent (table below);
* R-ANSWER     MGM2: every offer gets exactly one response, every committed pair
               exchanges exactly one go message;
* R-STATE      each handler tests the state literal of its own phase and
               otherwise postpones in the buffer drained by the function that sets
               that literal; the drain dispatches to the same handler, does not
               mutate the buffer it iterates, and empties it;
* R-PROTO      every message class posted by a computation has a handler
               registered on the same class (the peers run the same class);
* R-INIT       every attribute read by a method is initialised in __init__ (MRO)
               or assigned before in the same function;
* R-NORAISE    no explicit raise in the handlers beyond the three frozen sanity
               checks of MGM2; list.remove / list.index are guarded.

Not decided: liveness under all FIFO schedules, exceptions raised by the data
(cost functions, empty domains), exactly-k as a count.
"""
import ast

from ..model import walk_no_nested, norm, call_name, is_self_attr, is_self_call, AnchorMissing
from ..facts import FuncFacts, facts_at, stmt_paths, count_paths, calls_hit, conjuncts
from ..report import Ctx, AnalysisError
from ..effects import field_writes, class_self_calls, fact_set, stmt_has_self_call

ALGOS = {
    "mgm": ("pydcop.algorithms.mgm", "MgmComputation"),
    "mgm2": ("pydcop.algorithms.mgm2", "Mgm2Computation"),
    "dsa": ("pydcop.algorithms.dsa", "DsaComputation"),
}
NEIGH = ("self._neighbors", "self.neighbors", "self.neighbors_vars")


def _posts_to_all(st) -> bool:
    """statement is `for n in <neighbours>: self.post_msg(n|n.name, ..)` without
    condition, or self.post_to_all_neighbors(..)"""
    if isinstance(st, ast.Expr) and isinstance(st.value, ast.Call) and is_self_call(st.value, "post_to_all_neighbors"):
        return True
    if isinstance(st, ast.For) and norm(st.iter) in NEIGH and isinstance(st.target, ast.Name):
        nv = st.target.id
        if any(isinstance(n, (ast.Break, ast.Continue, ast.Return)) for n in ast.walk(st)):
            return False
        # every path of the loop body posts exactly once to the loop variable
        def hit(s):
            return sum(1 for c in walk_no_nested(s) if isinstance(c, ast.Call) and is_self_call(c, "post_msg") and c.args and norm(c.args[0]) in (nv, f"{nv}.name")) \
                if not isinstance(s, (ast.If, ast.For, ast.While, ast.Try, ast.With)) else 0
        o = count_paths(st.body, hit)
        return all(v == (1, 1) for k, v in o.k.items() if k in ("fall",)) and "fall" in o.k
    return False


def _calls_in_stmt(st, name):
    return [c for c in walk_no_nested(st) if isinstance(c, ast.Call) and is_self_call(c, name)]


def check(ctx: Ctx):
    repo = ctx.repo
    ctx.decided = ("isolated variables finish in on_start; new_cycle() exactly once per cycle advance, stop test right after it, finish "
                   "without sending, otherwise value to every neighbour; every phase-closing path sends the next phase's messages and "
                   "enters it; MGM2 answers every offer once and exchanges one go message per committed pair; state literals, postponed "
                   "buffers and their drains agree; every posted message type has a handler; every attribute read is initialised; no "
                   "new explicit raise, list.remove/index guarded.")
    ctx.undecided = "liveness under all FIFO interleavings; data-dependent exceptions; the number of cycles as a count."
    ctx.rule("R-ISOLATED", "on_start: a variable without neighbour selects a value and calls finished() on every path")
    ctx.rule("R-CYCLE", "cycle advance: new_cycle() once; `stop_cycle and cycle_count >= stop_cycle` => finished(), nothing sent; else value to all neighbours")
    ctx.rule("R-PROGRESS", "a phase that has received all its messages sends the next phase's messages and enters it, on every path")
    ctx.rule("R-ANSWER", "MGM2: one response per received offer; one go message per committed pair")
    ctx.rule("R-STATE", "handler state test, postponed buffer, state-entry drain and state literals agree; drains do not mutate what they iterate")
    ctx.rule("R-PROTO", "every message class posted has a registered handler on the class")
    ctx.rule("R-INIT", "attributes read by methods are initialised in __init__ along the MRO")
    ctx.rule("R-NORAISE", "no explicit raise in handler code beyond the frozen sanity checks; list.remove/index guarded")
    for algo, (mod, cn) in ALGOS.items():
        cls = repo.cls(mod, cn)
        ctx.touch(cls)
        _isolated(ctx, repo, cls)
        _proto(ctx, repo, cls)
        _init(ctx, repo, cls)
        _noraise(ctx, repo, cls, algo)
        _param(ctx, repo, cls, mod)
    _cycle(ctx, repo, repo.func(ALGOS["mgm"][0], "MgmComputation._send_value"))
    _cycle(ctx, repo, repo.func(ALGOS["mgm2"][0], "Mgm2Computation._send_value"))
    _cycle(ctx, repo, repo.func(ALGOS["dsa"][0], "DsaComputation.evaluate_cycle"), region="len(self.current_cycle) == len(self.neighbors)")
    _mgm(ctx, repo)
    _mgm2(ctx, repo)
    _dsa(ctx, repo)
    _neighbour_sets(ctx, repo)
    _isolated_no_raise(ctx, repo)
    ctx.floor("R-ISOLATED", 3)
    ctx.floor("R-CYCLE", 9)
    ctx.floor("R-PROGRESS", 12)
    ctx.floor("R-STATE", 14)
    ctx.floor("R-PROTO", 8)


# --------------------------------------------------------------------------- counting against the neighbours
def _neighbour_sets(ctx, repo):
    """`len(<dict keyed by sender>) == len(<neighbours>)` closes a phase: the neighbour collection must be
    duplicate-free (a variable sharing two constraints with this one is ONE neighbour sending ONE message)."""
    ctx.rule("R-COUNT", "the neighbour collection whose length closes a phase is duplicate-free (a set)")
    n = 0
    for algo in ("mgm", "mgm2"):
        mod, cn = ALGOS[algo]
        cls = repo.cls(mod, cn)
        counted = set()
        for f in cls.methods.values():
            for c in ast.walk(f.node):
                if isinstance(c, ast.Compare) and len(c.ops) == 1 and isinstance(c.ops[0], ast.Eq):
                    for side in (c.left, c.comparators[0]):
                        if isinstance(side, ast.Call) and call_name(side) == "len" and side.args and is_self_attr(side.args[0]) and side.args[0].attr in ("_neighbors", "neighbors", "neighbors_vars"):
                            counted.add(side.args[0].attr)
        for fld in sorted(counted):
            ws = field_writes(cls, fld)
            for w in ws:
                n += 1
                v = w.value
                ok = isinstance(v, (ast.SetComp,)) or (isinstance(v, ast.Call) and call_name(v) in ("set", "frozenset"))
                ctx.check(ok, "R-COUNT", f"{cn}.{fld} is built as a set", w.func, w.stmt,
                          f"len(self.{fld}) is compared with the number of senders heard from: if a neighbour sharing several constraints is listed once per constraint the counts never match and the whole component waits for ever")
    ctx.check(n >= 2, "R-COUNT", "neighbour collections found", repo.cls(*ALGOS["mgm"]), None, f"{n}")
    # DSA counts against DcopComputation.neighbors, derived (de-duplicated) from the node's links: checked by C16 R-NEIGH
    _neighbour_view(ctx, repo)


# functions that use a substring test on a computation name for a size estimate only (never for the neighbour view): frozen by reading
_SUBSTR_OK = {"computation_memory"}


def _neighbour_view(ctx, repo):
    """A computation waits for one message from, and sends its value to, each member of its neighbour view: the view must be exactly the other
    ends of its constraints / links.
    * a class that builds its own view (`self._neighbors = ..`, a `neighbors` property) excludes the own variable by (in)equality with the variable or
      its name, over the dimensions of its constraints or the nodes of its links - nothing else is filtered out;
    * `x in <expr>.name` / `x not in <expr>.name` is a *substring* test on a str: as a way to say 'is not me' it also drops every neighbour whose name
      is contained in the own name (v1 next to v10); allowed only in the frozen size estimates."""
    ctx.rule("R-NEIGHVIEW", "the neighbour view is the other ends of the constraints: own variable excluded by (in)equality, no substring test on names")
    n = 0
    for algo, (mod, cn) in ALGOS.items():
        m = repo.module(mod)
        for f in repo.all_functions(m):
            for c in ast.walk(f.node):
                if isinstance(c, ast.Compare) and len(c.ops) == 1 and isinstance(c.ops[0], (ast.In, ast.NotIn)) and isinstance(c.comparators[0], ast.Attribute) and c.comparators[0].attr in ("name", "_name"):
                    n += 1
                    ctx.check(f.name in _SUBSTR_OK, "R-NEIGHVIEW", f"{f.qualname}: `{norm(c)}`", f, c,
                              "membership in a name is a substring test: a neighbour whose name is contained in the own name is dropped from the view, is never written to and is never waited for")
        cls = repo.cls(mod, cn)
        views = []
        for fld in ("_neighbors", "neighbors"):
            for w in field_writes(cls, fld):
                views.append((w.func, w.stmt, w.value))
        prop = cls.methods.get("neighbors")
        if prop is not None:
            for r in walk_no_nested(prop.node):
                if isinstance(r, ast.Return) and r.value is not None and not (is_self_attr(r.value, "_neighbors") or norm(r.value) in ("self.computation_def.node.neighbors", "list(self._neighbors)")):
                    views.append((prop, r, r.value))
        for f, st, v in views:
            n += 1
            comps = [x for x in ast.walk(v) if isinstance(x, (ast.ListComp, ast.SetComp, ast.GeneratorExp))]
            ok = norm(v) in ("comp_def.node.neighbors", "self.computation_def.node.neighbors") or len(comps) == 1
            if ok and comps:
                cmp_ = comps[0]
                srcs = [norm(g.iter) for g in cmp_.generators]
                tests = [t for g in cmp_.generators for t in g.ifs]
                own = ("self.variable", "self._variable", "variable", "self.name", "self._name", "self.variable.name", "variable.name")
                ok = len(tests) == 1 and isinstance(tests[0], ast.Compare) and len(tests[0].ops) == 1 and isinstance(tests[0].ops[0], (ast.NotEq, ast.IsNot)) \
                    and (norm(tests[0].left) in own or norm(tests[0].comparators[0]) in own) \
                    and any(s_.endswith(".dimensions") or s_.endswith(".nodes") for s_ in srcs)
            ctx.check(ok, "R-NEIGHVIEW", f"{cn}: the own neighbour view = the other ends of the constraints", f, st,
                      "the view must hold every variable sharing a constraint with this one, and only exclude the variable itself (by equality): a missing neighbour is never sent the value and never waited for")
    if n < 5:
        ctx.defer(f"R-NEIGHVIEW: only {n} sites found (3 frozen size estimates and 2 own views confirmed by reading)")


def _isolated_no_raise(ctx, repo):
    """the no-neighbour branch of on_start runs with an empty constraint list: nothing it reaches may reduce() an
    empty sequence without an initial value"""
    for algo, (mod, cn) in ALGOS.items():
        cls = repo.cls(mod, cn)
        on = cls.methods["on_start"]
        for st in on.node.body:
            if isinstance(st, ast.If) and isinstance(st.test, ast.UnaryOp) and isinstance(st.test.op, ast.Not) and norm(st.test.operand) in NEIGH:
                seen, stack = set(), [(on, st.body)]
                while stack:
                    f, stmts = stack.pop()
                    for s_ in stmts:
                        for c in ast.walk(s_):
                            if isinstance(c, ast.Call) and call_name(c) == "reduce" and len(c.args) == 2:
                                ctx.bad("R-NORAISE", f"{cn}.on_start (no neighbour) reaches reduce() without initial value in {f.name}", f, c,
                                        "a variable without neighbour may also have no constraint at all: reduce() of an empty sequence raises TypeError before finished() is called")
                            if isinstance(c, ast.Call) and is_self_call(c):
                                t = repo.lookup_method(cls, c.func.attr)
                                if t is not None and t.cls is cls and t.fq not in seen:
                                    seen.add(t.fq)
                                    stack.append((t, t.node.body))
                ctx.ok("R-NORAISE", f"{cn}.on_start: no-neighbour branch and the {len(seen)} methods it calls", on, st)


# --------------------------------------------------------------------------- generic
def _isolated(ctx, repo, cls):
    f = cls.methods.get("on_start")
    if f is None:
        raise AnchorMissing(f"{cls.name}.on_start")
    ctx.touch(f)
    found = False
    for st in f.node.body:
        if isinstance(st, ast.If) and isinstance(st.test, ast.UnaryOp) and isinstance(st.test.op, ast.Not) and norm(st.test.operand) in NEIGH:
            found = True
            o = count_paths(st.body, calls_hit(lambda c: is_self_call(c, "finished")))
            ok = all(v[0] >= 1 for k, v in o.k.items() if k in ("fall", "return")) and not any(k == "raise" for k in o.k)
            sel = count_paths(st.body, calls_hit(lambda c: is_self_call(c, "value_selection") or is_self_call(c, "random_value_selection")))
            ok2 = all(v[0] >= 1 for k, v in sel.k.items() if k in ("fall", "return"))
            ctx.check(ok, "R-ISOLATED", f"{cls.name}.on_start: no neighbour => finished()", f, st,
                      "a variable without neighbour never receives a message: if on_start does not report finished on every path the run never ends")
            ctx.check(ok2, "R-ISOLATED", f"{cls.name}.on_start: no neighbour => a value is selected", f, st, "")
            # the other branch starts the protocol (sends something / enters a state)
            ctx.check(bool(st.orelse), "R-ISOLATED", f"{cls.name}.on_start: with neighbours the protocol starts", f, st, "")
        elif isinstance(st, ast.If) and norm(st.test) in NEIGH:
            found = True
            o = count_paths(st.orelse, calls_hit(lambda c: is_self_call(c, "finished")))
            ok = bool(st.orelse) and all(v[0] >= 1 for k, v in o.k.items() if k in ("fall", "return"))
            ctx.check(ok, "R-ISOLATED", f"{cls.name}.on_start: no neighbour => finished()", f, st, "a variable without neighbour must finish at once")
    if not found:
        ctx.bad("R-ISOLATED", f"{cls.name}.on_start: no-neighbour test", f, f.node,
                "on_start does not distinguish the variable without neighbour, which can only finish here")


def _is_stop_test(t) -> bool:
    """self.stop_cycle and self.cycle_count >= self.stop_cycle  (== accepted)"""
    if not (isinstance(t, ast.BoolOp) and isinstance(t.op, ast.And) and len(t.values) == 2):
        return False
    a, b = t.values
    if norm(a) not in ("self.stop_cycle", "self.stop_cycle > 0", "self.stop_cycle != 0", "self.stop_cycle is not None"):
        a, b = b, a
    if norm(a) not in ("self.stop_cycle", "self.stop_cycle > 0", "self.stop_cycle != 0", "self.stop_cycle is not None"):
        return False
    if not (isinstance(b, ast.Compare) and len(b.ops) == 1):
        return False
    l, op, r = norm(b.left), type(b.ops[0]), norm(b.comparators[0])
    cc = ("self.cycle_count", "self._cycle_count")
    return (l in cc and r == "self.stop_cycle" and op in (ast.GtE, ast.Eq)) or (r in cc and l == "self.stop_cycle" and op in (ast.LtE, ast.Eq))


def _cycle(ctx, repo, f, region=None):
    ctx.touch(f)
    body = f.node.body
    if region is not None:
        ifs = [s for s in body if isinstance(s, ast.If) and norm(s.test) == region]
        if len(ifs) != 1:
            ctx.bad("R-CYCLE", f"{f.qualname}: cycle closes when every neighbour's value is in", f, f.node,
                    f"the test `{region}` that closes a cycle was not found")
            return
        ctx.ok("R-CYCLE", f"{f.qualname}: cycle closes exactly when every neighbour's value is in", f, ifs[0])
        body = ifs[0].body
    o = count_paths(body, calls_hit(lambda c: is_self_call(c, "new_cycle")))
    ok = all(v == (1, 1) for k, v in o.k.items() if k in ("fall", "return"))
    ctx.check(ok, "R-CYCLE", f"{f.qualname}: new_cycle() exactly once", f, f.node,
              "the cycle counter is what stop_cycle is compared with: it must advance by one per cycle on every path")
    paths = stmt_paths(body)
    n_stop = n_go = 0
    for p in paths:
        if p.exit == "raise":
            continue
        i_new = p.index(lambda s: stmt_has_self_call(s, "new_cycle"))
        stop_t = [t for t, pol in p.facts if pol and False]
        # find the stop test among the if-tests crossed by this path: facts carry its conjuncts
        is_stop = p.has_fact("self.stop_cycle", True) and (p.compare("self.cycle_count", ">=", "self.stop_cycle") or p.compare("self.cycle_count", "==", "self.stop_cycle"))
        fin = [i for i, s in enumerate(p.stmts) if stmt_has_self_call(s, "finished")]
        posts = [i for i, s in enumerate(p.stmts) if _posts_to_all(s)]
        anypost = [i for i, s in enumerate(p.stmts) if i > (fin[0] if fin else 10 ** 6) and any(isinstance(c, ast.Call) and call_name(c) in ("post_msg", "post_to_all_neighbors") for c in ast.walk(s))]
        if is_stop:
            n_stop += 1
            ctx.check(len(fin) == 1 and not anypost and 0 <= i_new < fin[0], "R-CYCLE", f"{f.qualname}: stop_cycle reached => finished(), nothing sent afterwards", f,
                      p.stmts[fin[0]] if fin else f.node, "after the k-th cycle the computation reports finished and stays silent")
        else:
            n_go += 1
            ctx.check(not fin, "R-CYCLE", f"{f.qualname}: no finish before stop_cycle", f, p.stmts[fin[0]] if fin else f.node,
                      "finished() is only licensed by the stop_cycle test")
            ctx.check(len(posts) >= 1 and i_new >= 0 and i_new < posts[-1], "R-CYCLE", f"{f.qualname}: the value is posted to every neighbour in every running cycle", f, f.node,
                      "a cycle in which the value is not sent to all neighbours leaves them waiting for ever")
    # the stop test itself
    tests = [s for s in ast.walk(f.node) if isinstance(s, ast.If) and "stop_cycle" in norm(s.test)]
    ctx.check(len(tests) == 1 and _is_stop_test(tests[0].test), "R-CYCLE", f"{f.qualname}: stop test is `stop_cycle and cycle_count >= stop_cycle`", f, tests[0] if tests else f.node,
              "k > 0 cycles exactly: a strict comparison runs one cycle too many, stop_cycle = 0 means no limit")
    if tests:
        # the test directly follows new_cycle (no send between them)
        ctx.check(n_stop >= 1 and n_go >= 1, "R-CYCLE", f"{f.qualname}: both outcomes of the stop test are reachable", f, tests[0], "")


def _proto(ctx, repo, cls):
    table = repo.handler_table(cls)
    mod = cls.module
    # message classes of the module: class -> type string
    types = {}
    for mc in mod.classes.values():
        ini = mc.methods.get("__init__")
        if ini is None:
            continue
        for c in ast.walk(ini.node):
            if isinstance(c, ast.Call) and isinstance(c.func, ast.Attribute) and c.func.attr == "__init__" and isinstance(c.func.value, ast.Call) and call_name(c.func.value) == "super" \
                    and c.args and isinstance(c.args[0], ast.Constant) and isinstance(c.args[0].value, str) and any(repo.is_subclass(mc, "pydcop.infrastructure.computations", "Message") for _ in [0]):
                types[mc.name] = c.args[0].value
    posted = {}
    for f in cls.methods.values():
        for c in ast.walk(f.node):
            if isinstance(c, ast.Call) and isinstance(c.func, ast.Name) and c.func.id in types:
                posted.setdefault(c.func.id, (f, c))
    if not posted:
        raise AnalysisError(f"{cls.name}: no message construction found")
    for name, (f, c) in sorted(posted.items()):
        h = table.get(types[name])
        ctx.check(h is not None, "R-PROTO", f"{cls.name}: {name} ('{types[name]}') has a handler", f, c,
                  "the neighbour computations are instances of the same class: a message type without handler raises in on_message")
        if h is not None:
            ctx.check(len(h.params) == 4, "R-PROTO", f"{cls.name}: handler {h.name}(self, sender, msg, t)", h, h.node, "handlers are called with (sender, message, time)")
    # conversely every registered type is produced by some message class of the module
    for t, h in sorted(table.items()):
        if h.cls is cls:
            ctx.check(t in types.values(), "R-PROTO", f"{cls.name}: registered type '{t}' is the type of a message class", h, h.node,
                      "a handler registered under a type string that no message class carries is never called")


def _init(ctx, repo, cls):
    mro = repo.mro(cls)
    init, members = set(), set()
    for k in mro:
        members |= set(k.methods) | set(k.class_attrs)
        for f in k.methods.values():
            if f.name != "__init__":
                continue
            for n in ast.walk(f.node):
                tg = n.targets if isinstance(n, ast.Assign) else [n.target] if isinstance(n, (ast.AugAssign, ast.AnnAssign)) else []
                for t in tg:
                    for e in (t.elts if isinstance(t, ast.Tuple) else [t]):
                        if is_self_attr(e):
                            init.add(e.attr)
    n = 0
    for f in cls.methods.values():
        assigned_here = {}
        for node in ast.walk(f.node):
            if isinstance(node, ast.Assign):
                for t in node.targets:
                    for e in (t.elts if isinstance(t, ast.Tuple) else [t]):
                        if is_self_attr(e):
                            assigned_here.setdefault(e.attr, node.lineno)
        seen = set()
        for node in ast.walk(f.node):
            if is_self_attr(node) and isinstance(node.ctx, ast.Load) and node.attr not in seen:
                seen.add(node.attr)
                a = node.attr
                if a in init or a in members:
                    n += 1
                    continue
                first = min(x.lineno for x in ast.walk(f.node) if is_self_attr(x, a) and isinstance(x.ctx, ast.Load))
                ok = a in assigned_here and assigned_here[a] <= first and f.name != "__init__"
                ctx.check(ok, "R-INIT", f"{cls.name}.{f.name}: self.{a} initialised before use", f, node,
                          f"self.{a} is neither set in an __init__ of the MRO nor assigned earlier in this function: reading it raises AttributeError in the handler")
    if n:
        ctx.ok("R-INIT", f"{cls.name}: {n} attribute reads resolved to __init__/members", cls, cls.node)


_FROZEN_RAISES = {
    ("mgm2", "_handle_response_message"): 2,   # sanity: answer from someone who is not the partner / while not an offerer
    ("mgm2", "_enter_state"): 1,               # sanity: unknown state literal
}


def _noraise(ctx, repo, cls, algo):
    for f in cls.methods.values():
        if f.name == "__init__":
            continue
        raises = [n for n in ast.walk(f.node) if isinstance(n, ast.Raise)]
        allowed = _FROZEN_RAISES.get((algo, f.name), 0)
        if raises:
            ctx.check(len(raises) <= allowed, "R-NORAISE", f"{cls.name}.{f.name}: explicit raise", f, raises[-1],
                      "handler code of a cycle-bounded local search must not raise: an exception in on_message leaves the cycle unfinished and the "
                      "neighbours waiting (frozen exceptions: MGM2's three protocol sanity checks)")
        ff = None
        for c in ast.walk(f.node):
            if isinstance(c, ast.Call) and isinstance(c.func, ast.Attribute) and c.func.attr in ("remove", "index") and len(c.args) == 1 \
                    and not isinstance(c.func.value, ast.Attribute) or (isinstance(c, ast.Call) and isinstance(c.func, ast.Attribute) and c.func.attr in ("remove", "index") and len(c.args) == 1 and not is_self_attr(c.func.value.value if isinstance(c.func.value, ast.Attribute) else None) and False):
                if not (isinstance(c.func.value, ast.Name)):
                    continue
                ff = ff or FuncFacts(f.node)
                lst, item = norm(c.func.value), norm(c.args[0])
                facts = fact_set(ff, c)
                guarded = ff.in_except(c) or any(g.kind == "try" and any(_catches(h, "ValueError") for h in g.node.handlers) for g in ff.guards_at(c)) \
                    or (f"{item} in {lst}", True) in facts or (f"{item} not in {lst}", False) in facts
                ctx.check(guarded, "R-NORAISE", f"{cls.name}.{f.name}: {lst}.{c.func.attr}({item}) cannot raise", f, c,
                          f"list.{c.func.attr} raises ValueError when the item is absent; it must be inside try/except ValueError or under `{item} in {lst}`")


def _catches(h, exc):
    if h.type is None:
        return True
    names = [norm(e) for e in (h.type.elts if isinstance(h.type, ast.Tuple) else [h.type])]
    return exc in names or "Exception" in names


def _param(ctx, repo, cls, mod):
    ws = [w for w in field_writes(cls, "stop_cycle")]
    ok = len(ws) == 1 and ws[0].func.name == "__init__" and isinstance(ws[0].value, ast.Call) and call_name(ws[0].value) == "param_value" \
        and ws[0].value.args and isinstance(ws[0].value.args[0], ast.Constant) and ws[0].value.args[0].value == "stop_cycle"
    ctx.check(ok, "R-CYCLE", f"{cls.name}: stop_cycle is the algorithm parameter", cls, ws[0].stmt if ws else cls.node,
              "the bound the cycle counter is compared with must be the user's stop_cycle")


def _region_paths(f, region_fact):
    """paths of f on which the (text, pol) fact holds"""
    return [p for p in stmt_paths(f.node.body) if p.has_fact(*region_fact) and p.exit != "raise"]


def _ordered_calls(p, names):
    """indices of the first statements calling each of names, in order; None if missing or out of order"""
    idx = []
    start = 0
    for nm in names:
        j = None
        for i in range(start, len(p.stmts)):
            s = p.stmts[i]
            if (nm == "@post_all" and _posts_to_all(s)) or (nm.startswith("@enter:") and _enters(s, nm[7:])) or (not nm.startswith("@") and stmt_has_self_call(s, nm)):
                j = i
                break
        if j is None:
            return None
        idx.append(j)
        start = j + 1
    return idx


def _enters(st, state):
    for c in walk_no_nested(st):
        if isinstance(c, ast.Call) and is_self_call(c, "_enter_state") and c.args and isinstance(c.args[0], ast.Constant) and c.args[0].value == state:
            return True
    return False


def _progress(ctx, f, region_fact, names, what, why):
    ctx.touch(f)
    ps = _region_paths(f, region_fact) if region_fact else [p for p in stmt_paths(f.node.body) if p.exit != "raise"]
    if not ps:
        ctx.bad("R-PROGRESS", f"{f.qualname}: {what}", f, f.node, f"no path found on which `{region_fact[0] if region_fact else 'entry'}` holds: the phase can never close")
        return
    bad = [p for p in ps if _ordered_calls(p, names) is None]
    node = f.node
    if bad:
        node = (bad[0].stmts[-1] if bad[0].stmts else f.node)
    ctx.check(not bad, "R-PROGRESS", f"{f.qualname}: {what}", f, node, why + f" (required in order: {', '.join(names)}; {len(bad)} of {len(ps)} paths miss it)")


def _handler_state(ctx, cls, hname, literal, bufpred, handle_pred, what):
    """`if self._state == lit: <handle> else: <buffer>.append((sender, msg[, t]))`"""
    h = cls.methods.get(hname)
    if h is None:
        raise AnchorMissing(f"{cls.name}.{hname}")
    ctx.touch(h)
    n_h = n_b = 0
    for p in stmt_paths(h.node.body):
        in_state = p.compare("self._state", "==", repr(literal))
        out_state = p.compare("self._state", "!=", repr(literal))
        apps = [s for s in p.stmts for c in walk_no_nested(s) if isinstance(c, ast.Call) and isinstance(c.func, ast.Attribute) and c.func.attr == "append" and bufpred(c.func.value)]
        handled = [s for s in p.stmts if handle_pred(s)]
        if in_state:
            n_h += 1
            ctx.check(bool(handled) and not apps, "R-STATE", f"{cls.name}.{hname}: in state {literal!r} the message is processed", h, (p.stmts or [h.node])[0],
                      "a message that arrives in its own phase must be taken into account now")
        elif out_state:
            n_b += 1
            good = len(apps) == 1 and not handled
            if good:
                c = next(c for c in walk_no_nested(apps[0]) if isinstance(c, ast.Call) and isinstance(c.func, ast.Attribute) and c.func.attr == "append")
                tup = c.args[0] if c.args else None
                good = isinstance(tup, ast.Tuple) and [norm(e) for e in tup.elts] == h.params[1:1 + len(tup.elts)] and len(tup.elts) >= 2
            ctx.check(good, "R-STATE", f"{cls.name}.{hname}: outside state {literal!r} the message is postponed in its own buffer", h, (apps or p.stmts or [h.node])[0],
                      "a message of another phase must be kept (sender, message) in the buffer that the entry of *its* phase drains")
        else:
            if apps or handled:
                ctx.bad("R-STATE", f"{cls.name}.{hname}: state test", h, (apps + handled)[0], f"the message is handled or postponed on a path that does not test self._state against {literal!r}")
    if n_h == 0 or n_b == 0:
        ctx.bad("R-STATE", f"{cls.name}.{hname}: {what}", h, h.node, f"handler does not distinguish state {literal!r} (process) from the other states (postpone)")


# --------------------------------------------------------------------------- MGM
def _mgm(ctx, repo):
    mod, cn = ALGOS["mgm"]
    cls = repo.cls(mod, cn)
    hv = repo.func(mod, f"{cn}._handle_value_message")
    hg = repo.func(mod, f"{cn}._handle_gain_message")
    wv = repo.func(mod, f"{cn}._wait_for_values")
    wg = repo.func(mod, f"{cn}._wait_for_gains")
    _progress(ctx, hv, ("len(self._neighbors_values) == len(self._neighbors)", True), ["_send_gain", "_wait_for_gains"],
              "all values received => gain sent, gain phase entered", "neighbours wait for this variable's gain message")
    _progress(ctx, hg, ("len(self._neighbors_gains) == len(self._neighbors)", True), ["_wait_for_values"],
              "all gains received => next value phase entered", "the next cycle starts by sending the value")
    _progress(ctx, wv, None, ["_send_value"], "entering the value phase sends the value (cycle advance)", "")
    sg = repo.func(mod, f"{cn}._send_gain")
    _progress(ctx, sg, None, ["@post_all"], "gain posted to every neighbour", "each neighbour waits for one gain message per neighbour")
    on = repo.func(mod, f"{cn}.on_start")
    ctx.check(any(stmt_has_self_call(s, "_wait_for_values") for st in on.node.body if isinstance(st, ast.If) for s in ast.walk(st) if isinstance(s, ast.stmt)),
              "R-PROGRESS", "MgmComputation.on_start: with neighbours the value phase is entered", on, on.node, "")
    # agent views are reset when a cycle closes
    for p in _region_paths(hg, ("len(self._neighbors_gains) == len(self._neighbors)", True)):
        i_w = p.index(lambda s: stmt_has_self_call(s, "_wait_for_values"))
        cl = {fld: p.index(lambda s, fld=fld: any(isinstance(c, ast.Call) and isinstance(c.func, ast.Attribute) and c.func.attr == "clear" and is_self_attr(c.func.value, fld) for c in walk_no_nested(s)))
              for fld in ("_neighbors_gains", "_neighbors_values")}
        ctx.check(all(0 <= i < i_w for i in cl.values()), "R-PROGRESS", "MGM: agent views cleared before the next value phase", hg, p.stmts[i_w] if i_w >= 0 else hg.node,
                  "the views count the messages of one cycle: if they are not emptied (before postponed messages of the next cycle are replayed) the "
                  "all-received test never becomes true again, or fires on stale entries")
    # states
    _handler_state(ctx, cls, "_on_value_msg", _state_literal(wv), lambda e: is_self_attr(e, "__postponed_value_messages__"),
                   lambda s: stmt_has_self_call(s, "_handle_value_message"), "value handler")
    _handler_state(ctx, cls, "_on_gain_msg", _state_literal(wg), lambda e: is_self_attr(e, "__postponed_gain_messages__"),
                   lambda s: stmt_has_self_call(s, "_handle_gain_message"), "gain handler")
    _drain(ctx, wv, "__postponed_value_messages__", "_handle_value_message")
    _drain(ctx, wg, "__postponed_gain_messages__", "_handle_gain_message")
    # who sets the state
    for w in field_writes(cls, "_state"):
        if w.func.name == "__init__":
            continue
        ctx.check(w.func in (wv, wg) and w.stmt in w.func.node.body, "R-STATE", f"MGM: state set only by the state-entry functions ({w.func.name})", w.func, w.stmt, "")


def _state_literal(f):
    ws = [s for s in f.node.body if isinstance(s, ast.Assign) and is_self_attr(s.targets[0], "_state") and isinstance(s.value, ast.Constant)]
    if len(ws) != 1:
        raise AnalysisError(f"{f.qualname}: does not set self._state to a literal exactly once")
    return ws[0].value.value


def _drain(ctx, f, buf, handler):
    """state set first; `for m in self.<buf>: self.<handler>(m[0], m[1])` forward, no mutation of buf inside; then clear."""
    ctx.touch(f)
    top = list(f.node.body)
    i_state = [i for i, s in enumerate(top) if isinstance(s, ast.Assign) and is_self_attr(s.targets[0], "_state")]
    loops = [(i, s) for i, s in enumerate(top) if isinstance(s, (ast.For, ast.While)) and buf in norm(s)]
    if len(loops) != 1:
        ctx.bad("R-STATE", f"{f.qualname}: drain of {buf}", f, f.node, "the state-entry function must replay the messages postponed for its phase")
        return
    i_l, l = loops[0]
    ok_iter = isinstance(l, ast.For) and (is_self_attr(l.iter, buf) or norm(l.iter) in (f"list(self.{buf})", f"self.{buf}[:]", f"self.{buf}.copy()"))
    direct = isinstance(l, ast.For) and is_self_attr(l.iter, buf)
    mut = [c for c in ast.walk(l) if isinstance(c, ast.Call) and isinstance(c.func, ast.Attribute) and is_self_attr(c.func.value, buf)
           and c.func.attr in ("remove", "pop", "clear", "insert", "append", "extend", "sort", "reverse")]
    if isinstance(l, ast.While):
        # while buf: m = buf.pop(0)
        pops = [c for c in mut if c.func.attr == "pop"]
        ok_iter = norm(l.test) == f"self.{buf}" and len(pops) == 1 and len(mut) == 1
        mut = []
        direct = False
    ctx.check(ok_iter and not (direct and mut), "R-STATE", f"{f.qualname}: replay does not mutate the buffer it iterates", f, (mut or [l])[0],
              "removing from a list while iterating it skips every second element: a postponed message is never processed and the computation waits for ever")
    calls = [c for c in ast.walk(l) if isinstance(c, ast.Call) and is_self_call(c, handler)]
    ff = FuncFacts(f.node)
    ok = len(calls) == 1 and not [g for g in ff.guards_at(calls[0]) if g.kind == "if"] and not any(isinstance(n, (ast.Break, ast.Continue, ast.Return)) for n in ast.walk(l))
    if ok and isinstance(l, ast.For):
        tv = norm(l.target)
        a = [norm(x) for x in calls[0].args]
        ok = a in ([f"{tv}[0]", f"{tv}[1]"], [f"*{tv}"]) or (isinstance(l.target, ast.Tuple) and a == [norm(e) for e in l.target.elts][:2])
    ctx.check(ok, "R-STATE", f"{f.qualname}: every postponed message is handed to {handler}(sender, msg)", f, calls[0] if calls else l, "")
    ctx.check(bool(i_state) and i_state[0] < i_l, "R-STATE", f"{f.qualname}: state set before the replay", f, l,
              "the replayed handler may itself close the phase and enter the next one: the state must already be the new one")
    if isinstance(l, ast.For):
        clears = [i for i, s in enumerate(top) if i > i_l and any(isinstance(c, ast.Call) and isinstance(c.func, ast.Attribute) and is_self_attr(c.func.value, buf) and c.func.attr == "clear" for c in walk_no_nested(s))
                  or (isinstance(s, ast.Assign) and is_self_attr(s.targets[0], buf) and isinstance(s.value, ast.List) and not s.value.elts and i > i_l)]
        ctx.check(len(clears) == 1, "R-STATE", f"{f.qualname}: buffer emptied after the replay", f, l, "replayed messages must not be replayed again in the next cycle")


# --------------------------------------------------------------------------- MGM2
M2_STATES = {"value": "on_value_msg", "offer": "on_offer_msg", "answer?": "on_answer_msg", "gain": "on_gain_msg", "go?": "on_go_msg"}


def _empty_reductions(ctx, repo, cls):
    """R-NORAISE: a helper of the class that reduces its parameter with min() / max() and no default is only called with a
    sequence known to be non-empty (an earlier operand of the same `or` tests emptiness, or a dominating guard does)"""
    n = 0
    for m in cls.methods.values():
        ps = m.params[1:]
        red = [c for c in walk_no_nested(m.node) if isinstance(c, ast.Call) and isinstance(c.func, ast.Name) and c.func.id in ("min", "max") and len(c.args) == 1
               and isinstance(c.args[0], ast.Name) and c.args[0].id in ps and not any(k.arg == "default" for k in c.keywords)]
        if not red:
            continue
        pidx = ps.index(red[0].args[0].id)
        for f in cls.methods.values():
            ff = FuncFacts(f.node)
            for c in ast.walk(f.node):
                if not (isinstance(c, ast.Call) and is_self_attr(c.func, m.name) and len(c.args) > pidx):
                    continue
                n += 1
                x = norm(c.args[pidx])
                empt = (f"{x} == []", f"not {x}", f"len({x}) == 0", f"[] == {x}")
                guarded = any((t in empt and p is False) or (t == x and p is True) or (t == f"len({x}) > 0" and p) for t, p in {(norm(a), b) for a, b in facts_at(ff, c)})
                # the full table of neighbour gains is non-empty whenever a gain phase completes: isolated variables finish in on_start (R-ISOLATED)
                if x in ("list(self._neighbors_gains.values())", "self._neighbors_gains.values()"):
                    guarded = True
                for b in ast.walk(f.node):
                    if isinstance(b, ast.BoolOp) and isinstance(b.op, ast.Or):
                        for i, v in enumerate(b.values):
                            if any(y is c for y in ast.walk(v)) and any(norm(e) in empt for e in b.values[:i]):
                                guarded = True
                    if isinstance(b, ast.BoolOp) and isinstance(b.op, ast.And):
                        for i, v in enumerate(b.values):
                            if any(y is c for y in ast.walk(v)) and any(norm(e) == x or norm(e) == f"len({x}) > 0" for e in b.values[:i]):
                                guarded = True
                ctx.check(guarded, "R-NORAISE", f"{cls.name}.{f.name}: {m.name}({x}) only with a non-empty sequence", f, c,
                          f"{m.name} reduces its argument with {red[0].func.id}() without default: an empty list (e.g. a variable whose only neighbour is its partner) raises "
                          "ValueError in the handler, the partner waits for ever and nobody reaches stop_cycle")
    return n


def _mgm2(ctx, repo):
    mod, cn = ALGOS["mgm2"]
    cls = repo.cls(mod, cn)
    if _empty_reductions(ctx, repo, cls) < 2:
        raise AnalysisError("R-NORAISE: call sites of MGM2's _best_gain not found")
    from .. import mgmrules as _G
    if _G.check_enter_state_last(ctx, list(cls.methods.values()), "R-STATE") < 8:
        ctx.defer("R-STATE: fewer than 8 paths entering an MGM2 state found")
    table = repo.handler_table(cls)
    # handler <-> state literal <-> buffer key <-> registered message type
    for st, hn in M2_STATES.items():
        h = cls.methods.get(hn)
        if h is None:
            raise AnchorMissing(f"{cn}.{hn}")
        ctx.check(table.get(st) is h, "R-STATE", f"MGM2: handler of message type {st!r} is {hn}", h, h.node,
                  "state names double as message types: the handler registered for the type must be the one _enter_state replays")
        _handler_state(ctx, cls, hn, st, lambda e, st=st: isinstance(e, ast.Subscript) and is_self_attr(e.value, "_postponed_msg") and isinstance(e.slice, ast.Constant) and e.slice.value == st,
                       lambda s: not (isinstance(s, ast.Expr) and isinstance(s.value, ast.Call) and ("logger" in norm(s.value.func) or "_postponed_msg" in norm(s.value.func)))
                       and not (isinstance(s, ast.Assign) and isinstance(s.targets[0], ast.Name)), f"{st} handler")
    # _enter_state: sets the state, drains _postponed_msg[state], dispatches each literal to its handler
    es = repo.func(mod, f"{cn}._enter_state")
    ctx.touch(es)
    top = list(es.node.body)
    sp = es.params[1]
    i_set = [i for i, s in enumerate(top) if isinstance(s, ast.Assign) and is_self_attr(s.targets[0], "_state") and norm(s.value) == sp]
    loops = [(i, s) for i, s in enumerate(top) if isinstance(s, ast.While) and norm(s.test) == f"self._postponed_msg[{sp}]"]
    ok = len(i_set) == 1 and len(loops) == 1 and i_set[0] < loops[0][0]
    ctx.check(ok, "R-STATE", "MGM2._enter_state: state set, then postponed messages of that state replayed until none is left", es, loops[0][1] if loops else es.node,
              "messages received ahead of their phase must be replayed when the phase is entered")
    if ok:
        l = loops[0][1]
        pops = [n for n in l.body if isinstance(n, ast.Assign) and isinstance(n.value, ast.Call) and norm(n.value.func) == f"self._postponed_msg[{sp}].pop"]
        ctx.check(len(pops) == 1 and pops[0] is l.body[0], "R-STATE", "MGM2._enter_state: each replayed message is removed from the buffer first", es, l,
                  "the replayed handler can re-enter _enter_state (phase closes during replay): the message must already be out of the buffer")
        mv = norm(pops[0].targets[0]) if pops else "msg"
        seen = {}
        for p in stmt_paths(l.body):
            for st, hn in M2_STATES.items():
                if p.compare(sp, "==", repr(st)):
                    calls = [c for s in p.stmts for c in walk_no_nested(s) if isinstance(c, ast.Call) and isinstance(c.func, ast.Attribute) and isinstance(c.func.value, ast.Name) and c.func.value.id == "self" and c.func.attr.startswith("on_")]
                    good = len(calls) == 1 and calls[0].func.attr == hn and [norm(a) for a in calls[0].args] == [f"*{mv}"]
                    seen[st] = good
                    ctx.check(good, "R-STATE", f"MGM2._enter_state: state {st!r} replays through {hn}", es, calls[0] if calls else l,
                              "a postponed message must be handed to the handler of its own type")
        if not seen:
            # table dispatch: `getattr(self, TABLE[state])(*msg)` (or TABLE.get(state)) with a module-level dict state -> handler name
            mod_ = es.module
            tables = {}
            for st_ in mod_.tree.body:
                if isinstance(st_, ast.Assign) and len(st_.targets) == 1 and isinstance(st_.targets[0], ast.Name) and isinstance(st_.value, ast.Dict) \
                        and all(isinstance(k_, ast.Constant) and isinstance(v_, ast.Constant) for k_, v_ in zip(st_.value.keys, st_.value.values)):
                    tables[st_.targets[0].id] = {k_.value: v_.value for k_, v_ in zip(st_.value.keys, st_.value.values)}
            disp = [c for c in ast.walk(l) if isinstance(c, ast.Call) and isinstance(c.func, ast.Call) and call_name(c.func) == "getattr" and len(c.func.args) == 2 and norm(c.func.args[0]) == "self"
                    and [norm(a) for a in c.args] == [f"*{mv}"]]
            if len(disp) == 1:
                key = disp[0].func.args[1]
                if isinstance(key, ast.Name):
                    kd = [a.value for a in ast.walk(l) if isinstance(a, ast.Assign) and norm(a.targets[0]) == key.id]
                    key = kd[0] if len(kd) == 1 else key
                tname = None
                if isinstance(key, ast.Subscript) and isinstance(key.value, ast.Name) and norm(key.slice) == sp:
                    tname = key.value.id
                elif isinstance(key, ast.Call) and isinstance(key.func, ast.Attribute) and key.func.attr == "get" and isinstance(key.func.value, ast.Name) and key.args and norm(key.args[0]) == sp:
                    tname = key.func.value.id
                if tname in tables:
                    for st, hn in M2_STATES.items():
                        good = tables[tname].get(st) == hn
                        seen[st] = good
                        ctx.check(good, "R-STATE", f"MGM2._enter_state: state {st!r} replays through {hn}", es, disp[0], f"the dispatch table {tname} maps {st!r} to {tables[tname].get(st)!r}")
        for st in M2_STATES:
            if st not in seen:
                ctx.bad("R-STATE", f"MGM2._enter_state: state {st!r} has a replay branch", es, l, f"postponed {st!r} messages would never be processed")
    # every _enter_state("<lit>") uses a known state
    n = 0
    for f, c, facts, ff in class_self_calls(cls, "_enter_state"):
        n += 1
        ctx.check(len(c.args) == 1 and isinstance(c.args[0], ast.Constant) and c.args[0].value in M2_STATES, "R-STATE", f"MGM2.{f.name}: enters a known state", f, c,
                  "an unknown state literal raises (or silently waits for messages nobody sends)")
    for w in field_writes(cls, "_state"):
        ctx.check(w.func.name in ("__init__", "_enter_state"), "R-STATE", "MGM2: state set only by _enter_state", w.func, w.stmt, "")
    # ---- progress table -------------------------------------------------------
    F = lambda n: repo.func(mod, f"{cn}.{n}")
    _progress(ctx, F("on_value_msg"), ("len(self._neighbors_values) == len(self._neighbors)", True), ["_handle_value_messages"], "all values received => offers computed", "")
    _progress(ctx, F("on_offer_msg"), ("len(self._offers) == len(self._neighbors)", True), ["_handle_offer_messages"], "all offers received => answers computed", "")
    _progress(ctx, F("on_gain_msg"), ("len(self._neighbors_gains) == len(self._neighbors)", True), ["_handle_gain_messages"], "all gains received => decision", "")
    _progress(ctx, F("_handle_value_messages"), None, ["@post_all", "@enter:offer"], "one offer message (possibly empty) to every neighbour, then offer phase",
              "every neighbour counts one offer message per neighbour before answering")
    _progress(ctx, F("_handle_offer_messages"), ("self._is_offerer", True), ["@enter:answer?"], "an offerer waits for its partner's answer", "")
    _progress(ctx, F("_handle_offer_messages"), ("self._is_offerer", False), ["_send_gain", "@enter:gain"], "a receiver sends its gain and enters the gain phase", "")
    _progress(ctx, F("_handle_response_message"), None, ["_send_gain", "@enter:gain"], "an offerer that got its answer sends its gain and enters the gain phase",
              "neighbours wait for one gain message per neighbour")
    _progress(ctx, F("_send_gain"), None, ["@post_all"], "gain posted to every neighbour", "")
    hg = F("_handle_gain_messages")
    ps = [p for p in stmt_paths(hg.node.body) if p.exit != "raise"]
    for p in ps:
        committed = p.has_fact("self._committed", True) and not p.has_fact("self._potential_gain == 0", True)
        if committed:
            idx = _ordered_calls(p, ["@enter:go?"])
            gos = [c for s in p.stmts for c in walk_no_nested(s) if isinstance(c, ast.Call) and is_self_call(c, "post_msg") and len(c.args) == 2 and isinstance(c.args[1], ast.Call) and call_name(c.args[1]) == "Mgm2GoMessage"]
            ok = idx is not None and len(gos) == 1 and norm(gos[0].args[0]) == "self._partner.name"
            ctx.check(ok, "R-ANSWER", "MGM2: a committed variable sends exactly one go/no-go to its partner and waits for the partner's", hg, gos[0] if gos else hg.node,
                      "both partners enter the go? phase: each must receive exactly one go message or it never leaves that phase")
        else:
            ok = _ordered_calls(p, ["_clear_agent", "_send_value", "@enter:value"]) is not None
            ctx.check(ok, "R-PROGRESS", "MGM2._handle_gain_messages: an uncommitted variable closes the cycle (clear, send value, value phase)", hg, (p.stmts or [hg.node])[-1],
                      "the cycle must end with the view reset and the next value message, in this order (the replay of postponed values needs the cleared view)")
    _progress(ctx, F("_handle_go_message"), None, ["_clear_agent", "_send_value", "@enter:value"], "go phase closes the cycle (clear, send value, value phase)",
              "the view must be reset before the next cycle's values are counted")
    on = F("on_start")
    ps = [p for p in stmt_paths(on.node.body) if p.has_fact("not self.neighbors_vars", False) or p.has_fact("self.neighbors_vars", True)]
    ctx.check(bool(ps) and all(_ordered_calls(p, ["_send_value", "@enter:value"]) is not None for p in ps), "R-PROGRESS", "MGM2.on_start: value sent, value phase entered", on, on.node, "")
    # ---- answers ---------------------------------------------------------------
    ho = F("_handle_offer_messages")
    loops = [l for l in ast.walk(ho.node) if isinstance(l, ast.For) and norm(l.iter) == "self._offers" and isinstance(l.target, ast.Tuple) and len(l.target.elts) == 2]
    ffo = FuncFacts(ho.node)
    n_l = 0
    for l in loops:
        sv, mv = norm(l.target.elts[0]), norm(l.target.elts[1])
        role = "offerer" if ("self._is_offerer", True) in fact_set(ffo, l) else "receiver"
        n_l += 1
        bad = []
        for p in stmt_paths(l.body):
            resp = [c for s in p.stmts for c in walk_no_nested(s) if isinstance(c, ast.Call) and is_self_call(c, "post_msg") and len(c.args) == 2 and norm(c.args[0]) == sv
                    and isinstance(c.args[1], ast.Call) and call_name(c.args[1]) == "Mgm2ResponseMessage"]
            offering = p.has_fact(f"{mv}.is_offering", True) or p.has_fact(f"not {mv}.is_offering", False)
            notoff = p.has_fact(f"{mv}.is_offering", False) or p.has_fact(f"not {mv}.is_offering", True)
            if notoff:
                if resp:
                    bad.append(p)
            elif len(resp) != 1 or not offering:
                # every path on which the offer is not known to be empty must answer exactly once,
                # and only real offers are answered
                bad.append(p)
        ctx.check(not bad, "R-ANSWER", f"MGM2: {role} sends exactly one response to every real offer and none to empty offers", ho, l,
                  "an offerer waits in the answer? phase for exactly one response from its partner: a missing response blocks it for ever, a second one raises")
    ctx.check(n_l == 2, "R-ANSWER", "MGM2: both roles answer the offers they received", ho, ho.node, "")
    # accept only the partner's offer
    acc = [c for c in ast.walk(ho.node) if isinstance(c, ast.Call) and call_name(c) == "Mgm2ResponseMessage" and c.args and isinstance(c.args[0], ast.Constant) and c.args[0].value is True]
    ok = len(acc) == 1
    if ok:
        fs = fact_set(ffo, acc[0])
        ok = any(t.endswith("== self._partner.name") and p for t, p in fs)
    ctx.check(ok, "R-ANSWER", "MGM2: the only accepted offer is the chosen partner's", ho, acc[0] if acc else ho.node, "")


# --------------------------------------------------------------------------- DSA
def _dsa(ctx, repo):
    mod, cn = ALGOS["dsa"]
    cls = repo.cls(mod, cn)
    h = repo.func(mod, f"{cn}._on_value_msg")
    ctx.touch(h)
    sp, mp = h.params[1], h.params[2]
    n_cur = n_next = 0
    for p in stmt_paths(h.node.body):
        cur = [s for s in p.stmts if isinstance(s, ast.Assign) and isinstance(s.targets[0], ast.Subscript) and is_self_attr(s.targets[0].value, "current_cycle")]
        nxt = [s for s in p.stmts if isinstance(s, ast.Assign) and isinstance(s.targets[0], ast.Subscript) and is_self_attr(s.targets[0].value, "next_cycle")]
        new = p.has_fact(f"{sp} not in self.current_cycle", True) or p.has_fact(f"{sp} in self.current_cycle", False)
        old = p.has_fact(f"{sp} not in self.current_cycle", False) or p.has_fact(f"{sp} in self.current_cycle", True)
        if new and not p.has_fact("not self._running", True):
            n_cur += 1
            i_s = p.index(lambda s: s in cur)
            i_e = p.index(lambda s: stmt_has_self_call(s, "evaluate_cycle"))
            ok = len(cur) == 1 and not nxt and norm(cur[0].targets[0].slice) == sp and norm(cur[0].value) == f"{mp}.value" and 0 <= i_s < i_e
            ctx.check(ok, "R-PROGRESS", "DSA: first value of a neighbour in this cycle is recorded, then the cycle is evaluated", h, cur[0] if cur else h.node,
                      "evaluate_cycle is the only place where the cycle can close: it must run after each recorded value")
        elif old and not p.has_fact("not self._running", True):
            n_next += 1
            ok = len(nxt) == 1 and not cur and norm(nxt[0].targets[0].slice) == sp and norm(nxt[0].value) == f"{mp}.value"
            ctx.check(ok, "R-STATE", "DSA: a second value of the same neighbour belongs to the next cycle", h, nxt[0] if nxt else h.node,
                      "a neighbour may be one cycle ahead; its value must be kept for the next cycle, not overwrite the current one")
    ctx.check(n_cur >= 1 and n_next >= 1, "R-STATE", "DSA: value handler distinguishes current-cycle and next-cycle values", h, h.node, "")
    ev = repo.func(mod, f"{cn}.evaluate_cycle")
    ifs = [s for s in ev.node.body if isinstance(s, ast.If) and norm(s.test) == "len(self.current_cycle) == len(self.neighbors)"]
    if ifs:
        body = ifs[0].body
        # hand-over: current <- next, next <- fresh; after new_cycle, before the stop test / the send
        ho = [i for i, s in enumerate(body) if isinstance(s, ast.Assign) and isinstance(s.targets[0], ast.Tuple) and [norm(e) for e in s.targets[0].elts] == ["self.current_cycle", "self.next_cycle"]]
        ok = len(ho) == 1
        if ok:
            v = body[ho[0]].value
            ok = isinstance(v, ast.Tuple) and norm(v.elts[0]) == "self.next_cycle" and isinstance(v.elts[1], (ast.Dict, ast.Call)) and norm(v.elts[1]) in ("{}", "dict()")
        if not ok:
            a = [i for i, s in enumerate(body) if isinstance(s, ast.Assign) and is_self_attr(s.targets[0], "current_cycle") and norm(s.value) == "self.next_cycle"]
            b = [i for i, s in enumerate(body) if isinstance(s, ast.Assign) and is_self_attr(s.targets[0], "next_cycle") and norm(s.value) in ("{}", "dict()")]
            ok = len(a) == 1 and len(b) == 1 and a[0] < b[0]
            ho = a
        i_post = [i for i, s in enumerate(body) if _posts_to_all(s)]
        ctx.check(ok and i_post and ho[0] < i_post[-1], "R-STATE", "DSA: values of the next cycle become the current view when the cycle closes, before the new value is sent", ev,
                  body[ho[0]] if ho else ifs[0], "values already received for the next cycle must not be lost, and the view must be fresh before neighbours can answer")
        # variants: every declared variant value has a branch
        decl = _declared_values(repo.module(mod), "variant")
        lits = set()
        for s in body:
            if isinstance(s, ast.If):
                n_ = s
                while isinstance(n_, ast.If):
                    t = n_.test
                    if isinstance(t, ast.Compare) and norm(t.left) == "self.variant" and isinstance(t.comparators[0], ast.Constant):
                        lits.add(t.comparators[0].value)
                    n_ = n_.orelse[0] if len(n_.orelse) == 1 and isinstance(n_.orelse[0], ast.If) else None
        ctx.check(bool(decl) and set(decl) <= lits, "R-PROGRESS", "DSA: every declared variant has a decision branch", ev, ifs[0],
                  f"declared variants {sorted(decl or [])}, branches {sorted(lits)}")
    on = repo.func(mod, f"{cn}.on_start")
    ps = [p for p in stmt_paths(on.node.body) if p.has_fact("not self.neighbors", False) or p.has_fact("self.neighbors", True)]
    ctx.check(bool(ps) and all(_ordered_calls(p, ["@post_all", "evaluate_cycle"]) is not None for p in ps), "R-PROGRESS", "DSA.on_start: value posted to all neighbours, then the cycle evaluated", on, on.node,
              "values may have arrived before start: the first cycle may already be complete")


def _declared_values(module, pname):
    ap = module.assigns.get("algo_params")
    if isinstance(ap, ast.List):
        for e in ap.elts:
            if isinstance(e, ast.Call) and e.args and isinstance(e.args[0], ast.Constant) and e.args[0].value == pname and len(e.args) >= 3 and isinstance(e.args[2], (ast.List, ast.Tuple)):
                return [x.value for x in e.args[2].elts if isinstance(x, ast.Constant)]
    return None


_MGM = "pydcop/algorithms/mgm.py"
_MGM2 = "pydcop/algorithms/mgm2.py"
_DSA = "pydcop/algorithms/dsa.py"
VARIANTS = [
    ("mgm_neighbour_view_by_substring", _MGM, "                for v in c.dimensions\n                if v != self.variable\n", "                for v in c.dimensions\n                if v.name not in self.variable.name\n", "break", "R-NEIGHVIEW"),
    ("dsa_cached_neighbour_view_by_substring", _DSA, "        self.constraints = comp_def.node.constraints\n", "        self.constraints = comp_def.node.constraints\n        self._neighbors = sorted(set(n for l in comp_def.node.links for n in l.nodes if n not in comp_def.node.name))\n", "break", "R-NEIGHVIEW"),
    ("n_dsa_cached_neighbour_view", _DSA, "        self.constraints = comp_def.node.constraints\n", "        self.constraints = comp_def.node.constraints\n        self._neighbors = sorted(set(n for l in comp_def.node.links for n in l.nodes if n != self.name))\n", "neutral"),
    ("mgm2_state_entered_before_go_is_posted", _MGM2, "                self._can_move = True\n                self.post_msg(self._partner.name, Mgm2GoMessage(True))\n", "                self._can_move = True\n                self._enter_state(\"go?\")\n                self.post_msg(self._partner.name, Mgm2GoMessage(True))\n", "break", "R-STATE"),
    ("mgm2_best_gain_of_no_neighbour", "pydcop/algorithms/mgm2.py", ["            if neigh_gains == [] or self._is_better_gain(", "        return max(gains) if self._mode == \"min\" else min(gains)"], ["            if self._is_better_gain(", "        return max(gains, default=0) if self._mode == \"min\" else min(gains)"], "break", "R-NORAISE"),
    ("mgm2_neighbors_sorted_list", _MGM2, "        self._neighbors = set(\n            [v for c in self._constraints for v in c.dimensions if v != self.variable]\n        )", "        self._neighbors = sorted(\n            [v for c in self._constraints for v in c.dimensions if v != self.variable],\n            key=lambda v: v.name,\n        )", "break", "R-COUNT"),
    ("mgm_isolated_reduces_empty", _MGM, "            value, cost = optimal_cost_value(self._variable, self._mode)\n            self.value_selection(value, cost)\n\n            if self.logger.isEnabledFor(logging.INFO):\n                self.logger.info(\n                    f\"Select initial value {self.current_value} \"", "            values, cost = self._compute_best_value()\n            self.value_selection(values[0], cost)\n\n            if self.logger.isEnabledFor(logging.INFO):\n                self.logger.info(\n                    f\"Select initial value {self.current_value} \"", "break", "R-NORAISE"),
    ("mgm_drain_removes_while_iterating", _MGM, "            self._handle_value_message(msg[0], msg[1])\n        self.__postponed_value_messages__.clear()",
     "            self.__postponed_value_messages__.remove(msg)\n            self._handle_value_message(msg[0], msg[1])", "break", "R-STATE"),
    ("dsa_remove_unguarded", _DSA, "        elif delta == 0:\n            if len(best_values) > 1:\n                try:\n                    best_values.remove(self.current_value)\n                except ValueError:\n                    pass\n",
     "        elif delta == 0:\n            if len(best_values) > 1:\n                best_values.remove(self.current_value)\n", "break", "R-NORAISE"),
    ("mgm_stop_strict", _MGM, "        if self.stop_cycle and self.cycle_count >= self.stop_cycle:\n            self.finished()\n            return\n        msg = MgmValueMessage",
     "        if self.stop_cycle and self.cycle_count > self.stop_cycle:\n            self.finished()\n            return\n        msg = MgmValueMessage", "break", "R-CYCLE"),
    ("mgm_finish_then_send", _MGM, "            self.finished()\n            return\n        msg = MgmValueMessage", "            self.finished()\n        msg = MgmValueMessage", "break", "R-CYCLE"),
    ("mgm_new_cycle_after_test", _MGM, "        self.new_cycle()\n        if self.stop_cycle and self.cycle_count >= self.stop_cycle:\n            self.finished()\n            return\n        msg = MgmValueMessage",
     "        if self.stop_cycle and self.cycle_count >= self.stop_cycle:\n            self.finished()\n            return\n        self.new_cycle()\n        msg = MgmValueMessage", "break", "R-CYCLE"),
    ("mgm_isolated_no_finish", _MGM, "                    f\"based on cost function for var {self._variable.name}\"\n                )\n            self.finished()\n", "                    f\"based on cost function for var {self._variable.name}\"\n                )\n", "break", "R-ISOLATED"),
    ("mgm_state_literal_typo", _MGM, "        self._state = \"gain\"\n", "        self._state = \"gains\"\n", "break", "R-STATE"),
    ("mgm_gain_not_sent", _MGM, "            self._send_gain()\n\n            self._wait_for_gains()", "            self._wait_for_gains()", "break", "R-PROGRESS"),
    ("mgm_views_not_cleared", _MGM, "            self._neighbors_gains.clear()\n            self._neighbors_values.clear()\n            self._wait_for_values()", "            self._neighbors_values.clear()\n            self._wait_for_values()", "break", "R-PROGRESS"),
    ("mgm_views_cleared_late", _MGM, "            self._neighbors_gains.clear()\n            self._neighbors_values.clear()\n            self._wait_for_values()", "            self._wait_for_values()\n            self._neighbors_gains.clear()\n            self._neighbors_values.clear()", "break", "R-PROGRESS"),
    ("mgm_postponed_wrong_buffer", _MGM, "            self.__postponed_gain_messages__.append((variable_name, recv_msg))", "            self.__postponed_value_messages__.append((variable_name, recv_msg))", "break", "R-STATE"),
    ("mgm_handler_unregistered", _MGM, "    @register(\"mgm_gain\")\n", "    @register(\"mgm_gains\")\n", "break", "R-PROTO"),
    ("mgm2_stop_never", _MGM2, "        if self.stop_cycle and self.cycle_count >= self.stop_cycle:\n            # The computation has run", "        if self.stop_cycle and self.cycle_count == self.stop_cycle + 1:\n            # The computation has run", "break", "R-CYCLE"),
    ("mgm2_no_answer_when_offerer", _MGM2, "            for sender, offer_msg in self._offers:\n                if offer_msg.is_offering:\n                    self.post_msg(sender, Mgm2ResponseMessage(False))\n",
     "            for sender, offer_msg in self._offers:\n                if offer_msg.is_offering and sender != self._partner.name:\n                    self.post_msg(sender, Mgm2ResponseMessage(False))\n", "break", "R-ANSWER"),
    ("mgm2_refusal_dropped", _MGM2, "                    if self.logger.isEnabledFor(logging.INFO):\n                        self.logger.info(f\"Refusing offer from {sender}\")\n                    self.post_msg(sender, Mgm2ResponseMessage(False))\n",
     "                    if self.logger.isEnabledFor(logging.INFO):\n                        self.logger.info(f\"Refusing offer from {sender}\")\n", "break", "R-ANSWER"),
    ("mgm2_nogo_not_sent", _MGM2, "                self._can_move = False\n                self.post_msg(self._partner.name, Mgm2GoMessage(False))\n", "                self._can_move = False\n", "break", "R-ANSWER"),
    ("mgm2_enter_unknown_state", _MGM2, "            self._send_gain()\n            self._enter_state(\"gain\")\n\n    def _handle_response_message", "            self._send_gain()\n            self._enter_state(\"gains\")\n\n    def _handle_response_message", "break", "R-"),
    ("mgm2_send_before_clear", _MGM2, "        self._clear_agent()\n        self._send_value()\n        self._enter_state(\"value\")\n\n    def _enter_state", "        self._send_value()\n        self._enter_state(\"value\")\n        self._clear_agent()\n\n    def _enter_state", "break", "R-PROGRESS"),
    ("mgm2_replay_wrong_handler", _MGM2, "            elif state == \"answer?\":\n                self.on_answer_msg(*msg)", "            elif state == \"answer?\":\n                self.on_offer_msg(*msg)", "break", "R-STATE"),
    ("mgm2_offer_only_to_partner", _MGM2, "            if n != self._partner:\n                self.post_msg(n.name, Mgm2OfferMessage(dict(), False))\n            else:", "            if n != self._partner:\n                pass\n            else:", "break", "R-PROGRESS"),
    ("dsa_no_evaluate_after_store", _DSA, "                \"Receiving value %s from %s\", recv_msg.value, variable_name\n            )\n            self.evaluate_cycle()\n", "                \"Receiving value %s from %s\", recv_msg.value, variable_name\n            )\n", "break", "R-PROGRESS"),
    ("dsa_next_cycle_dropped", _DSA, "            self.current_cycle, self.next_cycle = self.next_cycle, {}\n", "            self.current_cycle, self.next_cycle = {}, {}\n", "break", "R-STATE"),
    ("dsa_finish_and_send", _DSA, "                self.finished()\n                self.stop()\n                return\n\n            self.post_to_all_neighbors", "                self.finished()\n                self.stop()\n\n            self.post_to_all_neighbors", "break", "R-CYCLE"),
    ("dsa_variant_branch_missing", _DSA, "            elif self.variant == \"C\":\n                self.variant_c(delta, best_cost, args_best)\n", "", "break", "R-PROGRESS"),
    ("dsa_attr_uninitialised", _DSA, "        self.current_cycle = {}\n        self.next_cycle = {}\n\n        if self.variant", "        self.current_cycle = {}\n\n        if self.variant", "break", "R-INIT"),
    ("n_mgm_stop_eq", _MGM, "        if self.stop_cycle and self.cycle_count >= self.stop_cycle:\n            self.finished()\n            return\n        msg = MgmValueMessage",
     "        if self.stop_cycle and self.cycle_count == self.stop_cycle:\n            self.finished()\n            return\n        msg = MgmValueMessage", "neutral"),
    ("n_mgm_drain_copy", _MGM, "        for msg in self.__postponed_value_messages__:\n", "        for msg in list(self.__postponed_value_messages__):\n", "neutral"),
    ("n_dsa_handover_two_stmts", _DSA, "            self.current_cycle, self.next_cycle = self.next_cycle, {}\n", "            self.current_cycle = self.next_cycle\n            self.next_cycle = {}\n", "neutral"),
    ("n_dsa_guarded_remove", _DSA, "        elif delta == 0:\n            if len(best_values) > 1:\n                try:\n                    best_values.remove(self.current_value)\n                except ValueError:\n                    pass\n",
     "        elif delta == 0:\n            if len(best_values) > 1:\n                if self.current_value in best_values:\n                    best_values.remove(self.current_value)\n", "neutral"),
]
