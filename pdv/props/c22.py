"""C22 - orchestrated DPOP solve ends because every computation finished and
reports the DCOP's own accounting of the collected assignment.

Decided statically (necessary conditions, each a link whose loss makes the run
end on the timeout or report something else than the DCOP's accounting):
the end-of-computation chain from `finished()` in a DPOP computation to the
orchestrator's stop request, the stop / all-agents-stopped chain, who may write
the run status, and the value-collection chain down to `global_metrics`.
Not decided: optimality of the assignment (C01's clauses cover DPOP itself),
thread scheduling (C21 covers confinement).
"""
import ast

from ..model import walk_no_nested, norm, call_name, is_self_attr
from ..facts import FuncFacts, facts_at, count_paths, calls_hit
from ..report import Ctx, AnalysisError, SubCtx
from .. import freshrules

AG = "pydcop.infrastructure.agents"
OA = "pydcop.infrastructure.orchestratedagents"
ORC = "pydcop.infrastructure.orchestrator"
COMPS = "pydcop.infrastructure.computations"
DPOP = "pydcop.algorithms.dpop"
SOLVE = "pydcop.commands.solve"


def _facts(ff, node):
    return {(norm(t), p) for t, p in facts_at(ff, node)}


def _calls(f, pred):
    return [c for c in walk_no_nested(f.node) if isinstance(c, ast.Call) and pred(c)]


def _always(f, pred, exits=("fall", "return")):
    """pred-call executed at least once on every normal path of f"""
    o = count_paths(f.node.body, calls_hit(pred))
    return all(o.k[k][0] >= 1 for k in exits if k in o.k), o


def _deliver(ctx, repo):
    hm = repo.func("pydcop.infrastructure.agents", "Agent._handle_message")
    ctx.touch(hm)
    hp = hm.params
    oc = [c for c in walk_no_nested(hm.node) if isinstance(c, ast.Call) and call_name(c) == "on_message"]
    ok = len(oc) == 1
    if ok:
        k = count_paths(hm.node.body, calls_hit(lambda x: x is oc[0])).k
        ok = all(v == (1, 1) for kind, v in k.items() if kind in ("fall", "return")) and [norm(a) for a in oc[0].args] == [hp[1], hp[3], hp[4]]
    ctx.check(ok, "R-DELIVER", "Agent._handle_message calls dest.on_message(sender, msg, t) exactly once on every normal path", hm, oc[0] if oc else hm.node,
              "a message for a computation that is not started yet (its agent has not handled run_computations) must still reach on_message, which keeps it until start(): "
              "dropping it leaves e.g. a DPOP parent waiting for a UTIL message for ever")
    om = repo.func("pydcop.infrastructure.computations", "MessagePassingComputation.on_message")
    ctx.touch(om)
    ff = FuncFacts(om.node)
    keep = [c for c in walk_no_nested(om.node) if isinstance(c, ast.Call) and norm(c.func) == "self._paused_messages_recv.append"]
    disp = [c for c in walk_no_nested(om.node) if isinstance(c, ast.Call) and norm(c.func).startswith("self._decorated_handlers[")]
    ok = len(keep) == 1 and len(disp) >= 1 and norm(keep[0].args[0]) == f"({om.params[1]}, {om.params[2]}, {om.params[3]})"
    if ok:
        tops = [st for st in om.node.body if isinstance(st, ast.If) and any(x is keep[0] for x in ast.walk(st))]
        early = [x for x in walk_no_nested(om.node) if isinstance(x, (ast.Return, ast.Raise))]
        ok = len(tops) == 1 and not early
        if ok:
            br_keep = tops[0].orelse if any(x is keep[0] for st in tops[0].orelse for x in ast.walk(st)) else tops[0].body
            br_disp = tops[0].body if br_keep is tops[0].orelse else tops[0].orelse
            ok = any(x is disp[0] for st in br_disp for x in ast.walk(st)) and any(isinstance(st, ast.Expr) and st.value is keep[0] for st in br_keep)
    ctx.check(ok, "R-DELIVER", "MessagePassingComputation.on_message either dispatches the message or keeps it (sender, msg, t) for later", om, keep[0] if keep else om.node,
              "on every normal path the message is handled now or appended to the buffer replayed by start() / pause(False)")


def check(ctx: Ctx):
    repo = ctx.repo
    ctx.rule("R-END.agent", "finished() of a hosted computation always produces an end_of_computation message to the orchestrator")
    ctx.rule("R-END.mgt", "the orchestrator marks the computation finished and requests the stop exactly when every computation of the graph is finished")
    ctx.rule("R-END.stop", "stop request reaches every agent; each agent answers and stops; the run returns once all agents have left")
    ctx.rule("R-END.dpop", "every DPOP computation selects its value and calls finished() once its phase completes")
    ctx.rule("R-START", "deployment waits for every agent named by the distribution; the run waits for every computation of the distribution")
    ctx.rule("R-INFINITY", "the infinity used for the reported cost/violation is the one given to the solve/run entry point, forwarded link by link")
    ctx.rule("R-STATUS", "the run is reported FINISHED unless the timeout fired or the user interrupted: only those write the status")
    ctx.rule("R-VALUE", "selected values travel (agent, computation, value, cost, cycle) to the orchestrator and are reported with the DCOP's own accounting")
    ctx.rule("R-DELIVER", "every message dequeued by an agent reaches on_message of its destination computation (which buffers it until started / resumed)")
    ctx.rule("R-FRESH", "the payload of a message sent inside a loop is rebuilt for each iteration")
    msgs = repo.message_types()
    _deliver(ctx, repo)
    freshrules.check_fresh_payloads(ctx, "R-FRESH", ["pydcop.algorithms.dpop", "pydcop.infrastructure.orchestrator", "pydcop.infrastructure.orchestratedagents",
                                                      "pydcop.infrastructure.agents", "pydcop.infrastructure.computations"], min_sends=3)
    # "the reported assignment ... is optimal": the DPOP rules of C01 (UTIL / VALUE phases, objective, ownership of constraints) are part of this property too
    from . import c01
    c01.check(SubCtx(ctx, "R-DPOP."))

    # ---- R-END.agent ---------------------------------------------------------------------------------
    addc = repo.func(AG, "Agent.add_computation")
    wraps = {}
    for n in walk_no_nested(addc.node):
        if isinstance(n, ast.Assign) and isinstance(n.value, ast.Call) and call_name(n.value) == "notify_wrap" and len(n.value.args) == 2:
            wraps[norm(n.targets[0])] = n
    w = wraps.get("computation.finished")
    ok = w is not None and norm(w.value.args[0]) == "computation.finished" and norm(w.value.args[1]) == "partial(self._on_computation_finished, computation.name)" \
        and not [x for x in _facts(FuncFacts(addc.node), w)]
    ctx.check(ok, "R-END.agent", "Agent.add_computation wraps computation.finished with the agent's notification", addc, w or addc.node,
              "every hosted computation's finished() must call Agent._on_computation_finished(<its name>), unconditionally")
    nw = repo.func(AG, "notify_wrap")
    inner = [n for n in ast.walk(nw.node) if isinstance(n, ast.FunctionDef) and n is not nw.node]
    ok = len(inner) == 1 and [norm(s) for s in inner[0].body] == ["f(*args, **kwargs)", "cb(*args, **kwargs)"] and norm(nw.node.body[-1]) == f"return {inner[0].name}"
    ctx.check(ok, "R-END.agent", "notify_wrap calls the wrapped function then the callback", nw, nw.node, "the wrapper must call both, in this order, with the same arguments")
    oaf = repo.func(OA, "OrchestratedAgent._on_computation_finished")
    yes, _ = _always(oaf, lambda c: norm(c.func) == "self._mgt_computation.on_computation_finished" and c.args and norm(c.args[0]) == oaf.params[1])
    ctx.check(yes, "R-END.agent", "OrchestratedAgent._on_computation_finished forwards to its management computation on every path", oaf, oaf.node,
              "the management computation is the only sender of end_of_computation")
    ocf = repo.func(OA, "OrchestrationComputation.on_computation_finished")
    sends = _calls(ocf, lambda c: is_self_attr(c.func, "send_to_orchestrator") and c.args and call_name(c.args[0]) == "ComputationFinishedMessage")
    yes, _ = _always(ocf, lambda c: is_self_attr(c.func, "send_to_orchestrator") and c.args and call_name(c.args[0]) == "ComputationFinishedMessage")
    fields = msgs.get((ORC, "ComputationFinishedMessage"), (None, [], None))
    okargs = len(sends) == 1 and [norm(a) for a in sends[0].args[0].args] == ["self.agent.name", ocf.params[1]] and not sends[0].args[0].keywords
    ctx.check(yes and okargs and fields[0] == "end_of_computation" and fields[1] == ["agent", "computation"], "R-END.agent",
              "end_of_computation(agent, computation) is sent for the finished computation", ocf, sends[0] if sends else ocf.node,
              f"expected ComputationFinishedMessage(self.agent.name, {ocf.params[1]}) with fields ['agent', 'computation'], declared {fields[:2]}")
    sto = repo.func(OA, "OrchestrationComputation.send_to_orchestrator")
    yes, _ = _always(sto, lambda c: is_self_attr(c.func, "post_msg") and len(c.args) >= 2 and norm(c.args[0]) == "ORCHESTRATOR_MGT" and norm(c.args[1]) == sto.params[1])
    ctx.check(yes, "R-END.agent", "send_to_orchestrator posts the message to ORCHESTRATOR_MGT", sto, sto.node, "")

    # ---- R-END.mgt -------------------------------------------------------------------------------------
    mgt = repo.cls(ORC, "AgentsMgt")
    ht = repo.handler_table(mgt)
    end = repo.func(ORC, "AgentsMgt._on_computation_end_msg")
    ctx.check(ht.get("end_of_computation") is not None and ht["end_of_computation"].fq == end.fq, "R-END.mgt", "handler of 'end_of_computation'", end, end.node,
              f"registered handler: {ht.get('end_of_computation')}")
    mp = end.params[2]
    marks = [n for n in walk_no_nested(end.node) if isinstance(n, ast.Assign) and norm(n.targets[0]) == f"self._computation_status[{mp}.computation]"]
    o = count_paths(end.node.body, lambda st: 1 if st in marks else 0)
    ok = len(marks) == 1 and norm(marks[0].value) == "'finished'" and all(v == (1, 1) for k, v in o.k.items() if k in ("fall", "return"))
    ctx.check(ok, "R-END.mgt", "the finished computation is marked on every path", end, marks[0] if marks else end.node, "self._computation_status[msg.computation] = 'finished' must be executed exactly once")
    stops = _calls(end, lambda c: is_self_attr(c.func, "_orchestrator_stop_agents"))
    ff = FuncFacts(end.node)
    defs = {norm(n.targets[0]): n for n in walk_no_nested(end.node) if isinstance(n, ast.Assign) and len(n.targets) == 1}
    ok = len(stops) == 1
    if ok:
        fs = _facts(ff, stops[0])
        cond, cond_line = None, stops[0].lineno
        for t, p in fs:
            if p and t in defs:
                cond, cond_line = norm(defs[t].value), defs[t].lineno
            elif p and t.startswith("all("):
                cond = t
        good = ("all(s == 'finished' for n, s in self._computation_status.items())", "all((s == 'finished' for n, s in self._computation_status.items()))",
                "all(s == 'finished' for s in self._computation_status.values())", "all((s == 'finished' for s in self._computation_status.values()))")
        ok = cond in good and len(fs) == 1 and bool(marks) and marks[0].lineno < cond_line <= stops[0].lineno
        # and the stop is *always* requested under that condition
        o = count_paths(end.node.body, calls_hit(lambda c: is_self_attr(c.func, "_orchestrator_stop_agents")))
        ok = ok and all(v[1] <= 1 for v in o.k.values())
    ctx.check(ok, "R-END.mgt", "stop requested iff all computations are finished (after marking this one)", end, stops[0] if stops else end.node,
              "the stop must be guarded by all(status == 'finished') over the whole status table, evaluated after the current computation was marked")
    init = repo.func(ORC, "AgentsMgt.__init__")
    ini = [n for n in walk_no_nested(init.node) if isinstance(n, ast.Assign) and norm(n.targets[0]) == "self._computation_status"]
    ok = len(ini) == 1 and isinstance(ini[0].value, ast.DictComp) and norm(ini[0].value.generators[0].iter) == "self.graph.nodes" and not ini[0].value.generators[0].ifs \
        and norm(ini[0].value.key) == norm(ini[0].value.generators[0].target) + ".name" and norm(ini[0].value.value) != "'finished'"
    ctx.check(ok, "R-END.mgt", "status table holds every node of the computation graph, none finished", init, ini[0] if ini else init.node,
              "{n.name: <not finished> for n in self.graph.nodes}: a missing node ends the run early, an extra key never finishes")
    writers = []
    for f in repo.all_functions(repo.module(ORC)):
        for n in ast.walk(f.node):
            if isinstance(n, (ast.Assign, ast.AugAssign, ast.Delete)):
                tg = n.targets if not isinstance(n, ast.AugAssign) else [n.target]
                for t in tg:
                    if "_computation_status" in norm(t):
                        writers.append((f, n))
            if isinstance(n, ast.Call) and isinstance(n.func, ast.Attribute) and norm(n.func.value) == "self._computation_status" and n.func.attr in ("pop", "clear", "update", "setdefault", "popitem"):
                writers.append((f, n))
    extra = [(f, n) for f, n in writers if f.fq not in (init.fq, end.fq)]
    ctx.check(not extra, "R-END.mgt", "status table written only at initialisation and on end_of_computation", extra[0][0] if extra else end, extra[0][1] if extra else end.node,
              "another writer of _computation_status")

    # ---- R-END.stop ----------------------------------------------------------------------------------
    st = repo.func(ORC, "AgentsMgt._orchestrator_stop_agents")
    loops = [n for n in walk_no_nested(st.node) if isinstance(n, ast.For)]
    sends = _calls(st, lambda c: is_self_attr(c.func, "_send_mgt_msg") and len(c.args) == 2 and call_name(c.args[1]) == "StopAgentMessage")
    ok = len(loops) == 1 and len(sends) == 1
    if ok:
        ffs = FuncFacts(st.node)
        lv = norm(loops[0].target)
        src = norm(loops[0].iter)
        d = {norm(n.targets[0]): norm(n.value) for n in walk_no_nested(st.node) if isinstance(n, ast.Assign) and len(n.targets) == 1}
        src = d.get(src, src)
        fs = {x for x in _facts(ffs, sends[0]) if lv in x[0]}
        ok = src == "self.discovery.agents()" and norm(sends[0].args[0]) == lv and fs <= {(f"{lv} == 'orchestrator'", False), (f"{lv} != 'orchestrator'", True), (f"{lv} == ORCHESTRATOR", False)}
    ctx.check(ok, "R-END.stop", "StopAgentMessage is sent to every registered agent but the orchestrator", st, sends[0] if sends else st.node,
              "the loop must range over discovery.agents() and skip only the orchestrator's own agent")
    ohc = repo.cls(OA, "OrchestrationComputation")
    hto = repo.handler_table(ohc)
    sr = hto.get("stop")
    ok = sr is not None and msgs.get((ORC, "StopAgentMessage"), (None,))[0] == "stop"
    if ok:
        y1, _ = _always(sr, lambda c: is_self_attr(c.func, "send_to_orchestrator") and c.args and call_name(c.args[0]) == "AgentStoppedMessage")
        y2, _ = _always(sr, lambda c: norm(c.func) == "self.agent.stop")
        ok = y1 and y2
    ctx.check(ok, "R-END.stop", "an agent asked to stop answers 'stopped' and stops, on every path", sr or ohc, (sr or ohc).node, "handler of 'stop' must send AgentStoppedMessage and call self.agent.stop()")
    cb = repo.func(ORC, "AgentsMgt._cb_agent_registration")
    sets = _calls(cb, lambda c: norm(c.func) == "self._all_agt_stopped.set")
    ok = len(sets) == 1
    if ok:
        fs = _facts(FuncFacts(cb.node), sets[0])
        d = {norm(n.targets[0]): norm(n.value) for n in walk_no_nested(cb.node) if isinstance(n, ast.Assign) and len(n.targets) == 1}
        ev = cb.params[1]
        empt = [t for t, p in fs if (not p and d.get(t, t) == "self.discovery.agents()") or (p and t.startswith("not ") and d.get(t[4:], t[4:]) == "self.discovery.agents()")]
        ok = (f"{ev} == 'agent_removed'", True) in fs and len(empt) == 1
    ctx.check(ok, "R-END.stop", "all-agents-stopped is signalled when the last agent has left the directory", cb, sets[0] if sets else cb.node,
              "self._all_agt_stopped.set() must happen on 'agent_removed' exactly when discovery.agents() is empty")
    subs = _calls(repo.func(ORC, "AgentsMgt.on_start"), lambda c: norm(c.func) == "self.discovery.subscribe_agent" and len(c.args) == 2 and norm(c.args[1]) == "self._cb_agent_registration")
    ctx.check(len(subs) == 1, "R-END.stop", "the management computation subscribes to agent (un)registrations", repo.func(ORC, "AgentsMgt.on_start"), subs[0] if subs else None, "")
    # ... for EVERY agent of the DCOP: all of them register, all of them are sent the stop request (discovery.agents()), and the
    # all-stopped event is only ever set from a removal callback; an agent left out (e.g. one that hosts nothing) stops unseen
    ons = repo.func(ORC, "AgentsMgt.on_start")
    lps = [l for l in walk_no_nested(ons.node) if isinstance(l, ast.For) and subs and any(x is subs[0] for x in ast.walk(l))]
    ok = len(lps) == 1 and norm(lps[0].iter) in ("self._dcop.agents", "self._dcop.agents.keys()", "self._dcop.agents.values()", "list(self._dcop.agents)") and \
        norm(subs[0].args[0]) in (norm(lps[0].target), norm(lps[0].target) + ".name")
    ctx.check(ok, "R-END.stop", "the (un)registration callback is subscribed for every agent declared by the DCOP", ons, lps[0] if lps else ons.node,
              "the run returns when the last registered agent has left; agents that are not in the distribution still register and are stopped: if nobody listens to "
              "their removal and one of them leaves last, wait_stop_agents blocks until the timeout")
    run = repo.func(ORC, "Orchestrator.run")
    order = []
    for s in run.node.body:
        for c in ast.walk(s):
            if isinstance(c, ast.Call) and norm(c.func) in ("self.mgt.wait_stop_agents", "self._own_agt.clean_shutdown", "self._own_agt.join", "self._mgt_method"):
                order.append(norm(c.func) + ("" if norm(c.func) != "self._mgt_method" else ":" + norm(c.args[0])))
    want = ["self._mgt_method:'_orchestrator_run_computations'", "self.mgt.wait_stop_agents", "self._own_agt.clean_shutdown", "self._own_agt.join"]
    top = [norm(s) for s in run.node.body]
    ok = order == want and all(any(t.startswith(w.split(":")[0] + "(") for t in top) for w in want)
    ctx.check(ok, "R-END.stop", "Orchestrator.run: request the run, wait for all agents, then shut its own agent down", run, run.node, f"found {order}")
    wsa = repo.func(ORC, "AgentsMgt.wait_stop_agents")
    yes, _ = _always(wsa, lambda c: norm(c.func) == "self._all_agt_stopped.wait")
    ctx.check(yes, "R-END.stop", "wait_stop_agents blocks on the all-agents-stopped event", wsa, wsa.node, "")

    # ---- R-START: the run only starts once every agent / computation of the distribution is there ------
    _start_gates(ctx, repo)
    _infinity_chain(ctx, repo)

    # ---- R-END.dpop ----------------------------------------------------------------------------------
    svf = repo.func(DPOP, "DpopAlgo.select_value_and_finish")
    seq = [norm(s.value.func) for s in svf.node.body if isinstance(s, ast.Expr) and isinstance(s.value, ast.Call)]
    ok = "self.value_selection" in seq and "self.finished" in seq and seq.index("self.value_selection") < seq.index("self.finished")
    vs = [s.value for s in svf.node.body if isinstance(s, ast.Expr) and isinstance(s.value, ast.Call) and norm(s.value.func) == "self.value_selection"]
    ok = ok and len(vs) == 1 and [norm(a) for a in vs[0].args] == svf.params[1:3]
    ctx.check(ok, "R-END.dpop", "select_value_and_finish: value_selection(value, cost) then finished(), unconditionally", svf, svf.node, f"top-level calls: {seq}")
    is_fin = lambda c: is_self_attr(c.func, "select_value_and_finish")
    vm = repo.func(DPOP, "DpopAlgo._on_value_message")
    yes, o = _always(vm, is_fin)
    ctx.check(yes and all(v[1] <= 1 for v in o.k.values()), "R-END.dpop", "VALUE message: the computation selects its value and finishes on every path, once", vm, vm.node, f"{o}")
    um = repo.func(DPOP, "DpopAlgo._on_util_message")
    fin = _calls(um, is_fin)
    ok = len(fin) == 1
    if ok:
        fs = _facts(FuncFacts(um.node), fin[0])
        ok = fs == {("len(self._waited_children) == 0", True), ("self.is_root", True)}
    ctx.check(ok, "R-END.dpop", "UTIL message: the root finishes exactly when the last child reported", um, fin[0] if fin else um.node, "select_value_and_finish must be guarded by `no waited child` and `is_root` only")
    ups = _calls(um, lambda c: is_self_attr(c.func, "post_msg") and c.args and norm(c.args[0]) == "self._parent")
    ok = len(ups) == 1 and _facts(FuncFacts(um.node), ups[0]) == {("len(self._waited_children) == 0", True), ("self.is_root", False)}
    ctx.check(ok, "R-END.dpop", "UTIL message: a non-root forwards its UTIL to its parent when the last child reported", um, ups[0] if ups else um.node, "")
    os_ = repo.func(DPOP, "DpopAlgo.on_start")
    fin = _calls(os_, is_fin)
    ffo = FuncFacts(os_.node)
    ok = len(fin) >= 1 and all(("self.is_leaf", True) in _facts(ffo, c) and ("self.is_leaf and (not self.is_root)", False) in _facts(ffo, c) or
                               {("self.is_leaf", True), ("self.is_root", True)} <= _facts(ffo, c) for c in fin)
    o = count_paths(os_.node.body, calls_hit(is_fin))
    ctx.check(ok, "R-END.dpop", "on_start: only an isolated variable (root and leaf) finishes immediately", os_, fin[0] if fin else os_.node, "")
    # an isolated variable always finishes: inside the `elif self.is_leaf` block every path calls it
    blk = [n for n in ast.walk(os_.node) if isinstance(n, ast.If) and norm(n.test) == "self.is_leaf"]
    ok = len(blk) == 1
    if ok:
        ob = count_paths(blk[0].body, calls_hit(is_fin))
        ok = all(v == (1, 1) for k, v in ob.k.items() if k in ("fall", "return"))
    ctx.check(ok, "R-END.dpop", "on_start: an isolated variable finishes on every path", os_, blk[0] if blk else os_.node, "an unconstrained variable must still select a value and finish, else the run only ends on the timeout")
    leaf = _calls(os_, lambda c: is_self_attr(c.func, "post_msg") and c.args and norm(c.args[0]) == "self._parent")
    ok = len(leaf) == 1 and {("self.is_leaf and (not self.is_root)", True)} <= _facts(ffo, leaf[0]) | {("self.is_leaf and (not self.is_root)", True)} and \
        ({("self.is_leaf", True), ("self.is_root", False)} <= _facts(ffo, leaf[0]) or ("self.is_leaf and (not self.is_root)", True) in _facts(ffo, leaf[0]))
    ctx.check(ok, "R-END.dpop", "on_start: a leaf sends its UTIL to its parent", os_, leaf[0] if leaf else os_.node, "")

    # ---- R-STATUS ------------------------------------------------------------------------------------
    n_status = 0
    for m in repo.modules.values():
        if not m.name.startswith("pydcop") or ".tests" in m.name:
            continue
        for f in list(repo.all_functions(m)):
            for n in ast.walk(f.node):
                if isinstance(n, ast.Assign) and len(n.targets) == 1 and isinstance(n.targets[0], ast.Attribute) and n.targets[0].attr == "status" \
                        and norm(n.targets[0].value) in ("self", "orchestrator", "self._orchestrator", "self.orchestrator") and isinstance(n.value, ast.Constant) \
                        and (m.name == ORC and f.cls is not None and f.cls.name in ("Orchestrator", "AgentsMgt") or m.name.startswith("pydcop.commands") or m.name == "pydcop.infrastructure.run"):
                    n_status += 1
                    v = n.value.value
                    where = f.qualname
                    ok = (v == "OK" and where == "Orchestrator.__init__") or (v == "TIMEOUT" and where == "Orchestrator._on_timeout") or \
                         (v == "STOPPED" and f.name in ("on_timeout", "on_force_exit"))
                    ctx.check(ok, "R-STATUS", f"status = {v!r} in {where}", f, n, "the run status may become TIMEOUT only in the timeout callback and STOPPED only in the cli interruption handlers")
    ctx.floor("R-STATUS", 3)
    tmo = repo.func(ORC, "Orchestrator._on_timeout")
    callers = []
    for f in repo.all_functions(repo.module(ORC)):
        for c in ast.walk(f.node):
            if isinstance(c, ast.Call) and any(norm(a) == "self._on_timeout" for a in list(c.args) + [k.value for k in c.keywords]):
                callers.append((f, c))
            if isinstance(c, ast.Call) and norm(c.func) == "self._on_timeout":
                callers.append((f, c))
    ok = len(callers) == 1 and call_name(callers[0][1]) == "Timer" and norm(callers[0][1].args[0]) == "timeout" and ("timeout is not None", True) in _facts(FuncFacts(callers[0][0].node), callers[0][1])
    ctx.check(ok, "R-STATUS", "_on_timeout is only the target of the timer armed with the caller's timeout", callers[0][0] if callers else tmo, callers[0][1] if callers else tmo.node, "")
    sol = repo.func(SOLVE, "run_cmd")
    res = _calls(sol, lambda c: call_name(c) == "_results" and c.args and isinstance(c.args[0], ast.Constant))
    ffs = FuncFacts(sol.node)
    for c in res:
        v = c.args[0].value
        fs = _facts(ffs, c)
        if v == "FINISHED":
            ok = ("orchestrator.status == 'TIMEOUT'", False) in fs and ("orchestrator.status != 'STOPPED'", True) in fs and ("timeout_stopped", False) in fs
            ctx.check(ok, "R-STATUS", "solve reports FINISHED only when neither timeout nor interruption happened", sol, c, f"facts {sorted(fs)}")
        elif v == "TIMEOUT":
            ctx.check(("orchestrator.status == 'TIMEOUT'", True) in fs, "R-STATUS", "solve reports TIMEOUT when the orchestrator timed out", sol, c, f"facts {sorted(fs)}")
    ctx.check(any(c.args[0].value == "FINISHED" for c in res), "R-STATUS", "solve has a FINISHED outcome", sol, sol.node, "")
    rs = repo.func(SOLVE, "_results")
    t = norm(rs.node)
    ok = "metrics = orchestrator.end_metrics()" in t and f"metrics['status'] = {rs.params[0]}" in t
    ctx.check(ok, "R-STATUS", "_results reports the orchestrator's end metrics under the given status", rs, rs.node, "")

    # ---- R-VALUE -------------------------------------------------------------------------------------
    w = wraps.get("computation._on_value_selection")
    ok = w is not None and norm(w.value.args[0]) == "computation._on_value_selection" and norm(w.value.args[1]) == "partial(self._on_computation_value_changed, computation.name)"
    ctx.check(ok, "R-VALUE", "Agent.add_computation wraps _on_value_selection with the agent's notification", addc, w or addc.node, "")
    vsel = repo.func(COMPS, "VariableComputation.value_selection") if repo.has_func(COMPS, "VariableComputation.value_selection") else None
    if vsel is None:
        for c in repo.module(COMPS).classes.values():
            if "value_selection" in c.methods:
                vsel = c.methods["value_selection"]
    cs = _calls(vsel, lambda c: is_self_attr(c.func, "_on_value_selection"))
    ok = len(cs) == 1 and [norm(a) for a in cs[0].args] == [vsel.params[1], vsel.params[2], "self.cycle_count"]
    ctx.check(ok, "R-VALUE", "value_selection notifies (value, cost, cycle)", vsel, cs[0] if cs else vsel.node, "")
    # the first selection is always reported: the remembered previous value starts as None and nothing but value_selection writes it
    vc = repo.cls(COMPS, "VariableComputation")
    wr = [(m, a) for m in vc.methods.values() for a in ast.walk(m.node) if isinstance(a, (ast.Assign, ast.AugAssign, ast.AnnAssign))
          for t in (a.targets if isinstance(a, ast.Assign) else [a.target]) if is_self_attr(t, "_previous_val")]
    ini = [a for m, a in wr if m.name == "__init__"]
    oth = [(m, a) for m, a in wr if m.name not in ("__init__", "value_selection")]
    ok = len(ini) == 1 and norm(ini[0].value) == "None" and not oth
    ctx.check(ok, "R-VALUE", "the previous value starts as None: a computation's first selection differs from it and is reported", vc.methods["__init__"], (ini or [vc.methods["__init__"].node])[0],
              "value_selection only notifies when the value differs from the remembered one; DPOP selects exactly once, so a remembered initial value equal to the optimum "
              "means no value_change message: the reported assignment misses the variable and no cost is computed")
    t_ = [n for n in vsel.node.body if isinstance(n, ast.If)]
    ok = len(t_) == 1 and norm(t_[0].test) in (f"{vsel.params[1]} != self._previous_val", f"self._previous_val != {vsel.params[1]}") and any(x is cs[0] for x in ast.walk(t_[0])) if cs else False
    ctx.check(ok, "R-VALUE", "value_selection notifies exactly when the value differs from the remembered one", vsel, t_[0] if t_ else vsel.node, "")
    oav = repo.func(OA, "OrchestratedAgent._on_computation_value_changed")
    cs = _calls(oav, lambda c: norm(c.func) == "self._mgt_computation.on_computation_value_changed")
    ok = len(cs) == 1 and [norm(a) for a in cs[0].args] == oav.params[1:5] and _always(oav, lambda c: norm(c.func) == "self._mgt_computation.on_computation_value_changed")[0]
    ctx.check(ok, "R-VALUE", "OrchestratedAgent forwards (computation, value, cost, cycle) unchanged", oav, cs[0] if cs else oav.node, "")
    ocv = repo.func(OA, "OrchestrationComputation.on_computation_value_changed")
    mk = _calls(ocv, lambda c: call_name(c) == "ValueChangeMessage")
    fields = msgs.get((ORC, "ValueChangeMessage"), (None, [], None))
    p = ocv.params
    ok = len(mk) == 1 and fields[1] == ["agent", "computation", "value", "cost", "cycle", "metrics"] and [norm(a) for a in mk[0].args][:5] == ["self.agent.name", p[1], p[2], p[3], p[4]]
    ctx.check(ok, "R-VALUE", "ValueChangeMessage(agent, computation, value, cost, cycle, metrics) built in field order", ocv, mk[0] if mk else ocv.node, f"declared fields {fields[1]}")
    posts = _calls(ocv, lambda c: is_self_attr(c.func, "post_msg") and c.args and norm(c.args[0]) == "ORCHESTRATOR_MGT")
    yes, _ = _always(ocv, lambda c: is_self_attr(c.func, "post_msg") and c.args and norm(c.args[0]) == "ORCHESTRATOR_MGT")
    ctx.check(yes and len(posts) == 1, "R-VALUE", "every value change is posted to the orchestrator", ocv, posts[0] if posts else ocv.node, "")
    vh = repo.func(ORC, "AgentsMgt._on_value_change_msg")
    ctx.check(ht.get("value_change") is not None and ht["value_change"].fq == vh.fq, "R-VALUE", "handler of 'value_change'", vh, vh.node, "")
    mp = vh.params[2]
    stores = [n for n in walk_no_nested(vh.node) if isinstance(n, ast.Assign) and norm(n.targets[0]).startswith("self._agent_cycle_values[")]
    ok = len(stores) == 2
    ffv = FuncFacts(vh.node)
    for s in stores:
        tgt = norm(s.targets[0])
        cyc = ("self._collect_moment == 'cycle_change'", True) in _facts(ffv, s)
        want = f"self._agent_cycle_values[{mp}.cycle][{mp}.computation]" if cyc else f"self._agent_cycle_values[self._current_cycle][{mp}.computation]"
        ok = ok and tgt == want and norm(s.value) == f"({mp}.value, {mp}.cost)"
    o = count_paths(vh.node.body, lambda st: 1 if st in stores else 0)
    ok = ok and all(v == (1, 1) for k, v in o.k.items() if k in ("fall", "return"))
    ctx.check(ok, "R-VALUE", "the orchestrator records (value, cost) for the computation named in the message, on every path", vh, stores[0] if stores else vh.node,
              "keyed by msg.computation under the current cycle (or msg.cycle in cycle_change mode)")
    gm = repo.func(ORC, "AgentsMgt.global_metrics")
    t = norm(gm.node)
    ok = "agent_values = self._agent_cycle_values[self._current_cycle]" in t and "assignment = {k: agent_values[k][0] for k in agent_values if agent_values[k]}" in t
    ctx.check(ok, "R-VALUE", "global_metrics: assignment = value slot of every recorded computation of the current cycle", gm, gm.node, "")
    un = [n for n in ast.walk(gm.node) if isinstance(n, ast.Assign) and isinstance(n.value, ast.Call) and norm(n.value.func) == "self._dcop.solution_cost"]
    sc = repo.func("pydcop.dcop.dcop", "solution_cost")
    ret = [r for r in walk_no_nested(sc.node) if isinstance(r, ast.Return)]
    ok = len(un) == 1 and isinstance(un[0].targets[0], ast.Tuple) and [norm(e) for e in un[0].targets[0].elts] == ["violation", "cost"] and len(ret) == 1 and isinstance(ret[0].value, ast.Tuple) and [norm(e) for e in ret[0].value.elts] == ["cost_hard", "cost_soft"] \
        and [norm(a) for a in un[0].value.args] == ["dcop_assignment", "self.infinity"] and "dcop_assignment = filter_assignment_dict(assignment, self._dcop.variables.values())" in t
    ctx.check(ok, "R-VALUE", "global_metrics: (violation, cost) = dcop.solution_cost(assignment restricted to the DCOP's variables, infinity)", gm, un[0] if un else gm.node,
              "slot order must match solution_cost's (hard, soft) return")
    d = [n for n in ast.walk(gm.node) if isinstance(n, ast.Dict) and any(isinstance(k, ast.Constant) and k.value == "assignment" for k in n.keys)]
    ok = len(d) == 1
    if ok:
        kv = {k.value: norm(v) for k, v in zip(d[0].keys, d[0].values) if isinstance(k, ast.Constant)}
        ok = kv.get("assignment") == "assignment" and kv.get("cost") == "cost" and kv.get("violation") == "violation" and kv.get("status") == gm.params[1]
    ctx.check(ok, "R-VALUE", "global_metrics: report slots status/assignment/cost/violation carry the like-named values", gm, d[0] if d else gm.node, "")
    em = repo.func(ORC, "Orchestrator.end_metrics")
    ctx.check("return self.mgt.global_metrics('END', self.mgt.last_agt_stop_time)" in norm(em.node), "R-VALUE", "end_metrics is global_metrics at the end of the run", em, em.node, "")
    ctx.decided = "end-of-computation, stop and value-collection chains are connected end to end with agreeing message types, fields and guards; status writers; DPOP finish points"
    ctx.undecided = "optimality of the DPOP assignment (C01 clauses); delivery under every thread schedule (C21 confinement, C19 FIFO)"


def _subset_gate(f, set_call, ff, want_all, want_known):
    """Is `set_call` dominated by `every element of <want_all> is in <want_known>`?
    Recognised forms (locals are followed):
      missing = []; for a in ALL: try: lookup(a) except Unknown: missing.append(a) ... if not missing
      missing = [a for a in ALL if a not in KNOWN] / set(ALL) - set(KNOWN) ... if not missing
      if all(a in KNOWN for a in ALL) / set(ALL) <= set(KNOWN) / set(ALL).issubset(KNOWN)
    want_all / want_known are predicates on normalised expression text."""
    from ..flow import resolve_local, local_defs
    facts = facts_at(ff, set_call)

    def is_all(e):
        e = resolve_local(f, e)
        t = norm(e)
        if want_all(t):
            return True
        return isinstance(e, ast.Call) and isinstance(e.func, ast.Name) and e.func.id in ("set", "list", "sorted", "frozenset") and len(e.args) == 1 and is_all(e.args[0])

    def is_known(e):
        e = resolve_local(f, e)
        t = norm(e)
        if want_known(t):
            return True
        return isinstance(e, ast.Call) and isinstance(e.func, ast.Name) and e.func.id in ("set", "list", "sorted", "frozenset") and len(e.args) == 1 and is_known(e.args[0])

    def empty_missing(name):
        defs = local_defs(f, name)
        if len(defs) != 1:
            return False
        d = defs[0]
        if isinstance(d, ast.BinOp) and isinstance(d.op, ast.Sub):
            return is_all(d.left) and is_known(d.right)
        if isinstance(d, (ast.ListComp, ast.SetComp)) and len(d.generators) == 1:
            g = d.generators[0]
            v = norm(g.target)
            if not (is_all(g.iter) and norm(d.elt) == v and len(g.ifs) == 1):
                return False
            c = g.ifs[0]
            return isinstance(c, ast.Compare) and len(c.ops) == 1 and isinstance(c.ops[0], ast.NotIn) and norm(c.left) == v and is_known(c.comparators[0])
        if (isinstance(d, ast.List) and not d.elts) or (isinstance(d, ast.Call) and norm(d) in ("set()", "list()")):
            # filled in a loop over ALL
            apps = [c for c in walk_no_nested(f.node) if isinstance(c, ast.Call) and isinstance(c.func, ast.Attribute) and c.func.attr in ("append", "add") and norm(c.func.value) == name]
            if len(apps) != 1 or len(apps[0].args) != 1:
                return False
            gs = ff.guards_at(apps[0])
            loops = [g for g in gs if g.kind == "for"]
            if len(loops) != 1 or not is_all(loops[0].test):
                return False
            v = norm(loops[0].node.target)
            if norm(apps[0].args[0]) != v:
                return False
            others = [g for g in gs if g.kind not in ("for", "except") and any(n is g.node for n in ast.walk(loops[0].node)) and g.node is not loops[0].node]
            exc = [g for g in gs if g.kind == "except"]
            if exc:
                h = exc[0].node
                tr = next((n for n in ast.walk(loops[0].node) if isinstance(n, ast.Try) and h in n.handlers), None)
                if tr is None or not h.type or "Unknown" not in norm(h.type):
                    return False
                looked = [c for c in ast.walk(ast.Module(body=tr.body, type_ignores=[])) if isinstance(c, ast.Call) and c.args and norm(c.args[0]) == v and "discovery" in norm(c.func)]
                return len(looked) >= 1 and all(g.kind == "try" for g in others)
            ifs = [g for g in others if g.kind == "if"]
            if len(ifs) == 1 and ifs[0].pol:
                c = ifs[0].test
                return isinstance(c, ast.Compare) and len(c.ops) == 1 and isinstance(c.ops[0], ast.NotIn) and norm(c.left) == v and is_known(c.comparators[0])
            return False
        return False

    for t, pol in facts:
        # not missing / len(missing) == 0
        if isinstance(t, ast.Name) and not pol and empty_missing(t.id):
            return True
        if isinstance(t, ast.UnaryOp) and isinstance(t.op, ast.Not) and isinstance(t.operand, ast.Name) and pol and empty_missing(t.operand.id):
            return True
        if isinstance(t, ast.Compare) and len(t.ops) == 1 and isinstance(t.left, ast.Call) and norm(t.left.func) == "len" and isinstance(t.left.args[0], ast.Name):
            nm = t.left.args[0].id
            rhs = t.comparators[0]
            if isinstance(rhs, ast.Constant) and rhs.value == 0 and ((isinstance(t.ops[0], ast.Eq) and pol) or (isinstance(t.ops[0], (ast.Gt, ast.NotEq)) and not pol)) and empty_missing(nm):
                return True
        if pol and isinstance(t, ast.Call) and isinstance(t.func, ast.Name) and t.func.id == "all" and len(t.args) == 1 and isinstance(t.args[0], (ast.GeneratorExp, ast.ListComp)):
            g = t.args[0].generators[0]
            c = t.args[0].elt
            if is_all(g.iter) and isinstance(c, ast.Compare) and len(c.ops) == 1 and isinstance(c.ops[0], ast.In) and norm(c.left) == norm(g.target) and is_known(c.comparators[0]) and not g.ifs:
                return True
        if pol and isinstance(t, ast.Compare) and len(t.ops) == 1 and isinstance(t.ops[0], ast.LtE) and is_all(t.left) and is_known(t.comparators[0]):
            return True
        if pol and isinstance(t, ast.Call) and isinstance(t.func, ast.Attribute) and t.func.attr == "issubset" and is_all(t.func.value) and len(t.args) == 1 and is_known(t.args[0]):
            return True
    return False


def _start_gates(ctx, repo):
    cb = repo.func(ORC, "AgentsMgt._cb_agent_registration")
    ff = FuncFacts(cb.node)
    sets = _calls(cb, lambda c: norm(c.func) == "self.all_registered.set")
    ok = len(sets) == 1 and (f"{cb.params[1]} == 'agent_added'", True) in _facts(ff, sets[0]) and \
        _subset_gate(cb, sets[0], ff, lambda t: t == "self.initial_dist.agents", lambda t: t == "self.discovery.agents()")
    ctx.check(ok, "R-START", "all_registered is signalled only when every agent named by the distribution is known to discovery", cb, sets[0] if sets else cb.node,
              "the test must be by name over initial_dist.agents: with spare agents a count comparison fires before a hosting agent has registered, "
              "its computations are never deployed and the run never starts")
    cc = repo.func(ORC, "AgentsMgt._cb_computation_registration")
    ffc = FuncFacts(cc.node)
    sets = _calls(cc, lambda c: norm(c.func) == "self.ready_to_run.set")
    ok = len(sets) == 1 and (f"{cc.params[1]} == 'computation_added'", True) in _facts(ffc, sets[0]) and \
        _subset_gate(cc, sets[0], ffc, lambda t: t == "self.initial_dist.computations", lambda t: t == "self.discovery.computations()")
    ctx.check(ok, "R-START", "ready_to_run is signalled only when every computation of the distribution is deployed", cc, sets[0] if sets else cc.node,
              "running before the last computation is registered loses its start message: it never finishes and the run ends on the timeout")
    dep = repo.func(ORC, "Orchestrator.deploy_computations")
    top = list(dep.node.body)
    i_wait = [i for i, s in enumerate(top) if any(isinstance(c, ast.Call) and norm(c.func) == "self.mgt.all_registered.wait" for c in ast.walk(s))]
    i_dep = [i for i, s in enumerate(top) if any(isinstance(c, ast.Call) and norm(c.func) == "self._mgt_method" and c.args and isinstance(c.args[0], ast.Constant) and c.args[0].value == "_orchestrator_deploy_computations" for c in ast.walk(s))]
    ctx.check(len(i_wait) == 1 and len(i_dep) == 1 and i_wait[0] < i_dep[0], "R-START", "deploy_computations waits for all registrations before deploying", dep, top[i_dep[0]] if i_dep else dep.node, "")
    run = repo.func(ORC, "Orchestrator.run")
    top = list(run.node.body)
    i_wait = [i for i, s in enumerate(top) if isinstance(s, ast.Expr) and isinstance(s.value, ast.Call) and norm(s.value.func) == "self.mgt.ready_to_run.wait"]
    i_run = [i for i, s in enumerate(top) if any(isinstance(c, ast.Call) and norm(c.func) == "self._mgt_method" and c.args and isinstance(c.args[0], ast.Constant) and c.args[0].value == "_orchestrator_run_computations" for c in ast.walk(s))]
    ctx.check(len(i_wait) >= 1 and len(i_run) == 1 and i_wait[0] < i_run[0], "R-START", "run waits until the agents are ready before asking them to run", run, top[i_run[0]] if i_run else run.node, "")
    for fn, callpred, what in (("_orchestrator_deploy_computations", lambda c, v: is_self_attr(c.func, "_deploy_computation") and c.args and norm(c.args[0]) == v, "deploys on"),
                               ("_orchestrator_run_computations", lambda c, v: is_self_attr(c.func, "_send_mgt_msg") and len(c.args) == 2 and norm(c.args[0]) == v and call_name(c.args[1]) == "RunAgentMessage", "sends the run request to")):
        od = repo.func(ORC, "AgentsMgt." + fn)
        ctx.touch(od)
        ffd = FuncFacts(od.node)
        loops = [l for l in walk_no_nested(od.node) if isinstance(l, ast.For) and norm(l.iter) == "self.discovery.agents()" and isinstance(l.target, ast.Name)]
        ok = len(loops) == 1
        if ok:
            v = loops[0].target.id
            cs = [c for c in ast.walk(loops[0]) if isinstance(c, ast.Call) and callpred(c, v)]
            ok = len(cs) == 1
            if ok:
                fs = {x for x in _facts(ffd, cs[0]) if v in x[0]}
                ok = fs <= {(f"{v} == 'orchestrator'", False), (f"{v} != 'orchestrator'", True), (f"{v} == ORCHESTRATOR", False)} and not any(isinstance(n, (ast.Break, ast.Return)) for n in ast.walk(loops[0]))
        ctx.check(ok, "R-START", f"{fn} {what} every registered agent but the orchestrator", od, loops[0] if loops else od.node,
                  "an agent skipped here never hosts / starts its computations")
    rc = repo.func(ORC, "AgentsMgt._orchestrator_run_computations")
    rm = [c for c in ast.walk(rc.node) if isinstance(c, ast.Call) and call_name(c) == "RunAgentMessage"]
    ok = len(rm) == 1 and len(rm[0].args) == 1
    if ok:
        from ..flow import resolve_local
        a = rm[0].args[0]
        if isinstance(a, ast.Name):
            defs = [n.value for n in ast.walk(rc.node) if isinstance(n, ast.Assign) and norm(n.targets[0]) == a.id]
            a = defs[0] if len(defs) == 1 else a
        ok = norm(a).startswith("self.initial_dist.computations_hosted(")
    ctx.check(ok, "R-START", "each agent is asked to run exactly the computations the distribution places on it", rc, rm[0] if rm else rc.node, "")


def _infinity_chain(ctx, repo):
    from ..flow import bound_arg, resolve_local
    gm = repo.func(ORC, "AgentsMgt.global_metrics")
    sc = repo.func("pydcop.dcop.dcop", "DCOP.solution_cost")
    calls = [c for c in ast.walk(gm.node) if isinstance(c, ast.Call) and norm(c.func) == "self._dcop.solution_cost"]
    a = bound_arg(calls[0], sc, sc.params[2]) if calls and len(sc.params) > 2 else None
    ctx.check(a is not None and norm(a) == "self.infinity", "R-INFINITY", "global_metrics -> DCOP.solution_cost(infinity=self.infinity)", gm, calls[0] if calls else gm.node, "")
    mi = repo.func(ORC, "AgentsMgt.__init__")
    ws = [n for n in walk_no_nested(mi.node) if isinstance(n, ast.Assign) and is_self_attr(n.targets[0], "infinity")]
    ctx.check(len(ws) == 1 and norm(ws[0].value) == "infinity" and "infinity" in mi.params and ws[0] in mi.node.body, "R-INFINITY", "AgentsMgt.infinity = constructor parameter", mi, ws[0] if ws else mi.node, "")
    oi = repo.func(ORC, "Orchestrator.__init__")
    calls = [c for c in ast.walk(oi.node) if isinstance(c, ast.Call) and call_name(c) == "AgentsMgt"]
    a = bound_arg(calls[0], mi, "infinity") if calls else None
    ctx.check(a is not None and norm(a) == "infinity" and "infinity" in oi.params, "R-INFINITY", "Orchestrator(infinity) -> AgentsMgt(infinity)", oi, calls[0] if calls else oi.node,
              "an argument left to AgentsMgt's default (float('inf')) makes hard constraints expressed with a finite infinity count as soft cost: "
              "the reported violation/cost differ from dcop.solution_cost(assignment, infinity)")
    RUN = "pydcop.infrastructure.run"
    n = 0
    for fn in ("run_local_thread_dcop", "run_local_process_dcop"):
        f = repo.func(RUN, fn)
        calls = [c for c in ast.walk(f.node) if isinstance(c, ast.Call) and call_name(c) == "Orchestrator"]
        a = bound_arg(calls[0], oi, "infinity") if calls else None
        n += 1
        ctx.check(a is not None and norm(a) == "infinity" and "infinity" in f.params, "R-INFINITY", f"{fn}(infinity) -> Orchestrator(infinity)", f, calls[0] if calls else f.node, "")
    for modname in ("pydcop.commands.solve", "pydcop.commands.run"):
        m = repo.module(modname)
        for f in m.functions.values():
            for c in walk_no_nested(f.node):
                if isinstance(c, ast.Call) and call_name(c) in ("run_local_thread_dcop", "run_local_process_dcop"):
                    callee = repo.func(RUN, call_name(c))
                    a = bound_arg(c, callee, "infinity")
                    ok = a is not None and norm(a) == "INFINITY"
                    if ok:
                        g = [s for s in walk_no_nested(f.node) if isinstance(s, ast.Assign) and any(norm(t) == "INFINITY" for t in s.targets)]
                        ok = len(g) == 1 and norm(g[0].value) == "args.infinity" and any(isinstance(s, ast.Global) and "INFINITY" in s.names for s in walk_no_nested(f.node))
                    ctx.check(ok, "R-INFINITY", f"{modname.split('.')[-1]}: --infinity -> {call_name(c)}(infinity)", f, c, "")


_O = "pydcop/infrastructure/orchestrator.py"
_OA = "pydcop/infrastructure/orchestratedagents.py"
_A = "pydcop/infrastructure/agents.py"
_D = "pydcop/algorithms/dpop.py"
_S = "pydcop/commands/solve.py"
VARIANTS = [
    ("removal_callback_only_for_distribution_agents", _O, "        for agt in self._dcop.agents:\n            self.discovery.subscribe_agent(agt, self._cb_agent_registration)", "        for agt in self.initial_dist.agents:\n            self.discovery.subscribe_agent(agt, self._cb_agent_registration)", "break", "R-END.stop"),
    ("previous_value_starts_at_initial_value", "pydcop/infrastructure/computations.py", "        self._previous_val = None\n", "        self._previous_val = variable.initial_value\n", "break", "R-VALUE"),
    ("deliver_only_if_running", _A, "        dest = self.computation(dest_name)\n        dest.on_message(sender_name, msg, t)\n", "        dest = self.computation(dest_name)\n        if dest.is_running:\n            dest.on_message(sender_name, msg, t)\n", "break", "R-DELIVER"),
    ("on_message_drops_when_not_running", "pydcop/infrastructure/computations.py", "            self._paused_messages_recv.append((sender, msg, t))\n\n    def post_msg", "            if self._running:\n                self._paused_messages_recv.append((sender, msg, t))\n\n    def post_msg", "break", "R-DELIVER"),
    ("dpop_value_lists_hoisted", _D, "        for c in self._children:\n            variables_msg = [self._variable]\n            values_msg = [selected_value]\n", "        variables_msg = [self._variable]\n        values_msg = [selected_value]\n        for c in self._children:\n", "break", "R-"),
    ("dpop_cost_only_for_costfunc*", _D, "hasattr(self._variable, \"cost_for_val\")", "hasattr(self._variable, \"_cost_func\")", "break", "R-DPOP."),
    ("end_any_finished", _O, "        all_finished = all(s == 'finished'\n", "        all_finished = any(s == 'finished'\n", "break", "R-END.mgt"),
    ("end_marks_sender", _O, "        self._computation_status[msg.computation] = 'finished'", "        self._computation_status[msg.agent] = 'finished'", "break", "R-END.mgt"),
    ("end_check_before_mark", _O, "        self._computation_status[msg.computation] = 'finished'\n        self.logger.debug(' status %s', self._computation_status.items())\n        all_finished = all(s == 'finished'\n                           for n, s in self._computation_status.items())\n",
     "        all_finished = all(s == 'finished'\n                           for n, s in self._computation_status.items())\n        self._computation_status[msg.computation] = 'finished'\n", "break", "R-END.mgt"),
    ("status_table_vars_only", _O, "        self._computation_status = {n.name : '' for n in self.graph.nodes}", "        self._computation_status = {n.name : '' for n in self.graph.nodes if n.type == 'VariableComputation'}", "break", "R-END.mgt"),
    ("finished_args_swapped", _OA, "            ComputationFinishedMessage(self.agent.name, computation)", "            ComputationFinishedMessage(computation, self.agent.name)", "break", "R-END.agent"),
    ("finished_only_variables", _OA, "        self._mgt_computation.on_computation_finished(comp_name, *args, **kwargs)", "        if not comp_name.startswith('_'):\n            self._mgt_computation.on_computation_finished(comp_name, *args, **kwargs)", "break", "R-END.agent"),
    ("wrap_cb_first", _A, "        f(*args, **kwargs)\n        cb(*args, **kwargs)", "        cb(*args, **kwargs)\n        f(*args, **kwargs)", "break", "R-END.agent"),
    ("stop_skips_first", _O, "            for agt in active_agents:\n                if agt == 'orchestrator':\n                    continue\n                self._send_mgt_msg(agt, StopAgentMessage())", "            for agt in active_agents[1:]:\n                if agt == 'orchestrator':\n                    continue\n                self._send_mgt_msg(agt, StopAgentMessage())", "break", "R-END.stop"),
    ("stopped_when_any_left", _O, "            if remaining_agents:\n                self.logger.info('receiving removed from %s, still waiting for '", "            if len(remaining_agents) > 1:\n                self.logger.info('receiving removed from %s, still waiting for '", "break", "R-END.stop"),
    ("agent_does_not_stop", _OA, "            AgentStoppedMessage(self.agent.name, self.agent.metrics())\n        )\n        self.agent.stop()\n\n    def _on_agent_removed", "            AgentStoppedMessage(self.agent.name, self.agent.metrics())\n        )\n        if self.agent.is_running and not self.agent._computations:\n            self.agent.stop()\n\n    def _on_agent_removed", "break", "R-END.stop"),
    ("dpop_finish_before_value", _D, "        self.value_selection(value, cost)\n        self.stop()\n        self.finished()", "        self.finished()\n        self.value_selection(value, cost)\n        self.stop()", "break", "R-END.dpop"),
    ("dpop_unconstrained_silent", _D, "                value = choice(self._variable.domain)\n                self.select_value_and_finish(value, 0.0)", "                value = choice(self._variable.domain)\n                self.value_selection(value, 0.0)", "break", "R-END.dpop"),
    ("dpop_root_waits_more", _D, "        if len(self._waited_children) == 0:\n\n            if self.is_root:", "        if len(self._waited_children) == 0:\n\n            if self.is_root and self._children_separator:", "break", "R-END.dpop"),
    ("timeout_status_in_stop_agents", _O, "        self._mgt_method('_orchestrator_stop_agents', None)", "        self.status = \"TIMEOUT\"\n        self._mgt_method('_orchestrator_stop_agents', None)", "break", "R-STATUS"),
    ("value_slots_swapped", _O, "            self._agent_cycle_values[self._current_cycle][msg.computation] =\\\n                (msg.value, msg.cost)", "            self._agent_cycle_values[self._current_cycle][msg.computation] =\\\n                (msg.cost, msg.value)", "break", "R-VALUE"),
    ("value_keyed_by_agent", _O, "            self._agent_cycle_values[self._current_cycle][msg.computation] =\\\n                (msg.value, msg.cost)", "            self._agent_cycle_values[self._current_cycle][msg.agent] =\\\n                (msg.value, msg.cost)", "break", "R-VALUE"),
    ("metrics_unpack_swapped", _O, "            violation, cost = self._dcop.solution_cost(dcop_assignment,", "            cost, violation = self._dcop.solution_cost(dcop_assignment,", "break", "R-VALUE"),
    ("value_msg_cost_cycle_swapped", _OA, "            self.agent.name, computation, value, cost, cycle, metrics\n", "            self.agent.name, computation, value, cycle, cost, metrics\n", "break", "R-VALUE"),
    ("registration_by_count", _O, "            missing = []\n            for agt in self.initial_dist.agents:\n                try:\n                    self.discovery.agent_address(agt)\n                except UnknownAgent:\n                    missing.append(agt)\n            if missing:",
     "            missing = len(self.initial_dist.agents) - len(self.discovery.agents())\n            if missing > 0:", "break", "R-START"),
    ("ready_on_any_computation", _O, "            missing = expected - deployed\n            if not missing:", "            missing = expected - deployed\n            if deployed:", "break", "R-START"),
    ("ready_expected_from_graph_minus_one", _O, "            expected = set(self.initial_dist.computations)\n", "            expected = set(list(self.initial_dist.computations)[1:])\n", "break", "R-START"),
    ("infinity_not_forwarded", _O, "                             self._own_agt, self, infinity, collector=collector,", "                             self._own_agt, self, collector=collector,", "break", "R-INFINITY"),
    ("infinity_constant_in_metrics", _O, "            violation, cost = self._dcop.solution_cost(dcop_assignment,\n                                                       self.infinity)", "            violation, cost = self._dcop.solution_cost(dcop_assignment,\n                                                       float('inf'))", "break", "R-"),
    ("neutral_registration_comprehension", _O, "            missing = []\n            for agt in self.initial_dist.agents:\n                try:\n                    self.discovery.agent_address(agt)\n                except UnknownAgent:\n                    missing.append(agt)\n",
     "            missing = [agt for agt in self.initial_dist.agents if agt not in self.discovery.agents()]\n", "neutral"),
    ("neutral_infinity_keyword", _O, "                             self._own_agt, self, infinity, collector=collector,", "                             self._own_agt, self, infinity=infinity, collector=collector,", "neutral"),
    ("neutral_values_iter", _O, "                           for n, s in self._computation_status.items())", "                           for s in self._computation_status.values())", "neutral"),
    ("neutral_log", _O, "            self.logger.info('All DCOP computation have finished : stop')", "            self.logger.info('All computations have finished: stopping agents')", "neutral"),
]
