"""C10 - every value an algorithm selects lies in the variable's domain.

Decided: R-PROV - the first argument of every value_selection(...) call in every
algorithm module has domain provenance (or is None) on every definition path;
the funnel itself stores its argument unmodified and random_value_selection
draws from the own domain; Variable.__init__ validates the initial value; values
that cross between computations are covered by an explicit contract checked at
both ends (MGM2 coordinated offers, SyncBB path elements).
"""
import ast

from ..model import walk_no_nested, norm, call_name, is_self_attr, ClassInfo
from ..facts import FuncFacts, facts_at
from ..report import Ctx, AnalysisError
from ..provenance import Prov, DOM, NONE, DOMLIST, TOP, BOT

COMP = "pydcop.infrastructure.computations"
ALGOS = ["dpop", "syncbb", "mgm", "mgm2", "dsa", "adsa", "dsatuto", "dba", "gdba", "maxsum", "amaxsum", "mixeddsa", "ncbb"]

# message-borne / tuple-borne values: (function, expression) -> (provenance, reason).  Each entry is checked at both ends below.
CONTRACTS = {
    ("Mgm2Computation._handle_response_message", "msg.value"): (DOM, "value proposed for us by the partner that accepted our offer (slot 0 of our own offer key)"),
    ("Mgm2Computation._handle_offer_messages", "random.choice(best_offers)[1]"): (DOM, "slot 1 of a best-offer triple is the receiver's own value"),
    ("Mgm2Computation.accept_offer", "random.choice(best_offers)[1]"): (DOM, "slot 1 of a best-offer triple is the receiver's own value"),
    ("SyncBBComputation.on_backward_msg", "current_path[-1][1]"): (DOM, "last path element is the receiver's own (name, value, cost) triple"),
}


def _facts(ff, node):
    return {(norm(t), p) for t, p in facts_at(ff, node)}


def check(ctx: Ctx):
    repo = ctx.repo
    ctx.decided = ("the first argument of every value_selection call of the 13 algorithm modules derives, on every definition "
                   "path, from the own variable's domain (iteration / choice / index over it, the validated initial value, slot "
                   "0 of the best-response helpers, the current value, fields only ever assigned such values) or is None; the "
                   "funnel stores the value unmodified; random_value_selection draws from the own domain; Variable.__init__ "
                   "rejects an initial value outside the domain (None excepted); the three cross-computation contracts hold at "
                   "the producing and the consuming end.")
    ctx.undecided = "which domain value is selected; behaviour of user-written algorithms outside the package."
    ctx.rule("R-PROV", "value_selection(v, ..): v has own-domain provenance (or is None) on every path")
    ctx.rule("R-FUNNEL", "value_selection stores its argument unmodified; random_value_selection draws from the own domain")
    ctx.rule("R-INITIAL", "Variable.__init__ raises unless the initial value is None or a member of the domain")
    ctx.rule("R-CONTRACT", "values received from other computations are own-domain values by construction at the sender")

    # ---- funnel ----------------------------------------------------------------
    vs = repo.func(COMP, "VariableComputation.value_selection")
    rv = repo.func(COMP, "VariableComputation.random_value_selection")
    ctx.touch(vs)
    ctx.touch(rv)
    p_val = vs.params[1]
    stores = [n for n in walk_no_nested(vs.node) if isinstance(n, ast.Assign) and any(is_self_attr(t, "__value__") for t in n.targets)]
    ctx.check(len(stores) == 1 and norm(stores[0].value) == p_val, "R-FUNNEL", "value_selection stores its argument", vs, stores[0] if stores else vs.node,
              "the selected value must be stored exactly as given")
    cv = repo.func(COMP, "VariableComputation.current_value")
    ctx.check([norm(r.value) for r in walk_no_nested(cv.node) if isinstance(r, ast.Return)] == ["self.__value__"], "R-FUNNEL", "current_value returns the stored value", cv, cv.node, "")
    pr = Prov(repo, repo.cls(COMP, "VariableComputation"))
    calls = [c for c in walk_no_nested(rv.node) if isinstance(c, ast.Call) and is_self_attr(c.func, "value_selection")]
    ctx.check(len(calls) == 1 and pr.expr(calls[0].args[0], rv) == DOM, "R-FUNNEL", "random_value_selection draws from the own domain", rv, calls[0] if calls else rv.node,
              "the random value must be chosen in self.variable.domain")

    # ---- initial value validation ---------------------------------------------------
    vinit = repo.func("pydcop.dcop.objects", "Variable.__init__")
    ctx.touch(vinit)
    ffv = FuncFacts(vinit.node)
    raises = [r for r in walk_no_nested(vinit.node) if isinstance(r, ast.Raise)]
    ok = False
    for r in raises:
        fs = _facts(ffv, r)
        if ("initial_value is not None", True) in fs and any(t in ("initial_value not in self.domain.values", "initial_value not in self.domain", "initial_value not in self._domain",
                                                                     "initial_value not in domain") and p for t, p in fs):
            extra = [x for x in fs if "initial_value" in x[0] and x[0] not in ("initial_value is not None", "initial_value not in self.domain.values", "initial_value not in self.domain",
                                                                               "initial_value not in self._domain", "initial_value not in domain")]
            ok = not extra
    st = [n for n in walk_no_nested(vinit.node) if isinstance(n, ast.Assign) and any(is_self_attr(t, "_initial_value") for t in n.targets)]
    ok = ok and len(st) == 1 and norm(st[0].value) == "initial_value" and all(r.lineno < st[0].lineno for r in raises)
    ctx.check(ok, "R-INITIAL", "Variable.__init__ validates the initial value", vinit, raises[-1] if raises else vinit.node,
              "an initial value that is not None and not in the domain must be rejected (a truthiness test lets 0 / False / '' through)")
    # subclasses keep the validation (they call super().__init__ with the initial value)
    for ci in repo.subclasses_of("pydcop.dcop.objects", "Variable"):
        init = ci.methods.get("__init__")
        if init is None or ci.name == "ExternalVariable":
            continue
        sup = [c for c in walk_no_nested(init.node) if isinstance(c, ast.Call) and isinstance(c.func, ast.Attribute) and c.func.attr == "__init__"]
        okc = len(sup) >= 1 and any("initial_value" in norm(a) for c in sup for a in list(c.args) + [k.value for k in c.keywords])
        ctx.check(okc, "R-INITIAL", f"{ci.name}.__init__ forwards the initial value to Variable.__init__", init, sup[0] if sup else init.node,
                  "subclasses must pass the initial value through the validating base constructor")

    # ---- R-PROV over all algorithm modules ----------------------------------------------
    n_sites = 0
    for algo in ALGOS:
        m = repo.module("pydcop.algorithms." + algo)
        for ci in m.classes.values():
            if not repo.is_subclass(ci, COMP, "VariableComputation"):
                continue
            prov = Prov(repo, ci, contracts=CONTRACTS)
            for f in ci.methods.values():
                for c in walk_no_nested(f.node):
                    if isinstance(c, ast.Call) and (is_self_attr(c.func, "value_selection")):
                        n_sites += 1
                        if not c.args:
                            ctx.bad("R-PROV", f"{algo}:{f.qualname}", f, c, "value_selection called without a value")
                            continue
                        a0 = c.args[0]
                        if isinstance(a0, ast.Starred):
                            s = prov.summary_of_call(a0.value, f, 0) if isinstance(a0.value, ast.Call) else None
                            p = s[0] if s else TOP
                        else:
                            p = prov.expr(a0, f)
                        ctx.check(p in (DOM, NONE), "R-PROV", f"{algo}:{f.qualname}: value_selection({norm(a0)[:50]})", f, c,
                                  f"cannot establish that `{norm(a0)}` is a member of the variable's own domain (provenance {p})")
                    elif isinstance(c, ast.Call) and is_self_attr(c.func, "random_value_selection"):
                        n_sites += 1
                        ctx.ok("R-PROV", f"{algo}:{f.qualname}: random_value_selection()", f, c, sample=False)
    ctx.floor("R-PROV", 45)

    # ---- contracts: both ends ---------------------------------------------------------------
    M2 = "pydcop.algorithms.mgm2"
    co = repo.func(M2, "Mgm2Computation._compute_offers_to_send")
    fb = repo.func(M2, "Mgm2Computation._find_best_offer")
    ho = repo.func(M2, "Mgm2Computation._handle_offer_messages")
    hr = repo.func(M2, "Mgm2Computation._handle_response_message")
    for f in (co, fb, ho, hr):
        ctx.touch(f)
    # (i) offer keys = (own value, partner value), both enumerated from their variables
    ks = [n for n in walk_no_nested(co.node) if isinstance(n, ast.Assign) and isinstance(n.targets[0], ast.Subscript) and norm(n.targets[0].value) == "offers"]
    ok = len(ks) == 1 and norm(ks[0].targets[0].slice) == "(limited_asgt[self.name], limited_asgt[self._partner.name])"
    lp = [n for n in walk_no_nested(co.node) if isinstance(n, ast.For) and norm(n.target) == "limited_asgt"]
    ok = ok and len(lp) == 1 and norm(lp[0].iter) == "generate_assignment_as_dict([self.variable, self._partner])"
    ctx.check(ok, "R-CONTRACT", "MGM2 offer key = (offerer value, partner value) enumerated from both domains", co, ks[0] if ks else co.node,
              "offers must be keyed (own value, partner value), each enumerated from its own variable's domain")
    # (ii) best-offer triple = (offerer value, receiver value, offerer name)
    loops = [n for n in ast.walk(fb.node) if isinstance(n, ast.For) and norm(n.iter) == "offers.items()"]
    ok = len(loops) == 1 and norm(loops[0].target) == "((val_p, my_offer_val), partner_local_gain)"
    tr = [norm(t) for n in ast.walk(fb.node) if isinstance(n, (ast.Assign, ast.Expr)) for t in ast.walk(n) if isinstance(t, ast.Tuple) and len(t.elts) == 3 and "partner" in norm(t)]
    ok = ok and bool(tr) and all(t == "(val_p, my_offer_val, partner)" for t in tr)
    from ..mgmrules import offer_roles
    roles_, up = offer_roles(fb)
    ok = ok and len(up) == 1 and roles_ == {"val_p": "partner", "my_offer_val": "own"}
    ctx.check(ok, "R-CONTRACT", "MGM2 best-offer triple = (offerer value, own value, offerer)", fb, loops[0] if loops else fb.node,
              "the receiver reads an offer key as (offerer's value, its own value) and must keep that order in the triple and in the costed assignment")
    # (iii) receiver keeps slot 1 for itself and answers with slot 0
    un = [n for n in walk_no_nested(ho.node) if isinstance(n, ast.Assign) and isinstance(n.targets[0], ast.Tuple) and norm(n.value) == "random.choice(best_offers)"]
    ok = len(un) == 1 and [norm(e) for e in un[0].targets[0].elts] == ["val_p", "self._potential_value", "partner_name"]
    bo = [n for n in walk_no_nested(ho.node) if isinstance(n, ast.Assign) and isinstance(n.targets[0], ast.Tuple) and "best_offers" in norm(n.targets[0]) and isinstance(n.value, ast.Call)
          and is_self_attr(n.value.func, "_find_best_offer")]
    ok = ok and len(bo) == 1 and norm(bo[0].targets[0].elts[0]) == "best_offers"
    rs = [c for c in walk_no_nested(ho.node) if isinstance(c, ast.Call) and call_name(c) == "Mgm2ResponseMessage" and c.args and norm(c.args[0]) == "True"]
    ok = ok and len(rs) == 1 and norm(rs[0].args[1]) == "val_p"
    ctx.check(ok, "R-CONTRACT", "MGM2 receiver keeps its own value (slot 1) and returns the offerer's value (slot 0)", ho, un[0] if un else ho.node,
              "unpack order (partner value, own value, partner): swapping the first two makes both partners select each other's value")
    # (iv) offerer adopts the answered value only on accept from its partner
    ffr = FuncFacts(hr.node)
    st = [n for n in walk_no_nested(hr.node) if isinstance(n, ast.Assign) and norm(n.targets[0]) == "self._potential_value"]
    ok = len(st) == 1 and norm(st[0].value) == "msg.value" and ("msg.accept", True) in _facts(ffr, st[0]) and ("variable_name != self._partner.name", False) in _facts(ffr, st[0])
    ctx.check(ok, "R-CONTRACT", "MGM2 offerer adopts msg.value only on accept from its partner", hr, st[0] if st else hr.node,
              "the value carried by the answer is the offerer's own value only when the answer comes from the partner it made the offer to")
    # SyncBB path elements
    SB = "pydcop.algorithms.syncbb"
    of = repo.func(SB, "SyncBBComputation.on_forward_message")
    ob = repo.func(SB, "SyncBBComputation.on_backward_msg")
    os_ = repo.func(SB, "SyncBBComputation.on_start")
    for f in (of, ob, os_):
        ctx.touch(f)
    sp = Prov(repo, repo.cls(SB, "SyncBBComputation"), contracts=CONTRACTS)
    n_el = 0
    for f in (of, ob, os_):
        for t in ast.walk(f.node):
            if isinstance(t, ast.Tuple) and len(t.elts) == 3 and norm(t.elts[0]) == "self.variable.name":
                n_el += 1
                ctx.check(sp.expr(t.elts[1], f) == DOM, "R-CONTRACT", f"SyncBB {f.name}: path element carries an own-domain value", f, t,
                          f"a path element (own name, value, cost) must carry a value of the own domain, found `{norm(t.elts[1])}`")
    ctx.check(n_el >= 3, "R-CONTRACT", "SyncBB: path elements are (own name, own value, cost)", of, of.node, f"expected 3 construction sites, found {n_el}")
    un = [n for n in walk_no_nested(ob.node) if isinstance(n, ast.Assign) and isinstance(n.targets[0], ast.Tuple) and norm(n.value) == "current_path[-1]"]
    asr = [a for a in walk_no_nested(ob.node) if isinstance(a, ast.Assert) and norm(a.test) in ("var == self.variable.name", "self.variable.name == var")]
    ok = len(un) == 1 and [norm(e) for e in un[0].targets[0].elts] == ["var", "val", "cost"] and len(asr) == 1
    ctx.check(ok, "R-CONTRACT", "SyncBB backward: last path element is unpacked as (name, value, cost) and checked to be ours", ob, un[0] if un else ob.node,
              "the value re-selected when backtracking is slot 1 of the last path element, which must be this variable's own element")
    for f, want in ((of, {"current_path"}), (ob, {"current_path[:-1]"})):
        bk = [c for c in ast.walk(f.node) if isinstance(c, ast.Call) and call_name(c) == "SyncBBBackwardMessage"]
        got = {norm(c.args[0]) for c in bk}
        ctx.check(bool(bk) and got <= want, "R-CONTRACT", f"SyncBB {f.name}: backward message ends with the previous variable's element", f, bk[0] if bk else f.node,
                  f"a backward message must carry a path whose last element belongs to its receiver ({sorted(want)}), found {sorted(got)}")
    fwd = [c for f in (of, ob, os_) for c in ast.walk(f.node) if isinstance(c, ast.Call) and call_name(c) == "SyncBBForwardMessage"]
    ctx.check(len(fwd) >= 3 and all(norm(c.args[0]) in ("new_path", "path") for c in fwd), "R-CONTRACT", "SyncBB: forward messages carry the extended path", of, fwd[0] if fwd else of.node, "")


_SB = "pydcop/algorithms/syncbb.py"
VARIANTS = [
    ("adsa_cost_as_value", "pydcop/algorithms/adsa.py", "value, current_cost = optimal_cost_value(self._variable, self.mode)", "current_cost, value = optimal_cost_value(self._variable, self.mode)", "break", "R-PROV"),
    ("mgm2_triple_swapped", "pydcop/algorithms/mgm2.py", "                val_p, self._potential_value, partner_name = random.choice(best_offers)", "                self._potential_value, val_p, partner_name = random.choice(best_offers)", "break"),
    ("initial_value_truthy", "pydcop/dcop/objects.py", "        if initial_value is not None and initial_value not in self.domain.values:", "        if initial_value and initial_value not in self.domain.values:", "break", "R-INITIAL"),
    ("dba_index_value", "pydcop/algorithms/dba.py", "        self.value_selection(random.choice(self.variable.domain),", "        self.value_selection(random.randrange(len(self.variable.domain)),", "break", "R-PROV"),
    ("dsa_neighbor_value", "pydcop/algorithms/dsa.py", "            self.value_selection(random.choice(best_values), best_cost)", "            self.value_selection(random.choice(list(self.current_cycle.values())), best_cost)", "break", "R-PROV"),
    ("maxsum_select_cost", "pydcop/algorithms/maxsum.py", "    return optimal_d[0], optimal_d[1]", "    return optimal_d[1], optimal_d[0]", "break", "R-PROV"),
    ("syncbb_path_cost_as_value", _SB, "                new_path.append((self.variable.name, value, cost))", "                new_path.append((self.variable.name, cost, value))", "break", "R-CONTRACT"),
    ("syncbb_backward_full_path", _SB, "                    SyncBBBackwardMessage(current_path[:-1], self.upper_bound),", "                    SyncBBBackwardMessage(current_path, self.upper_bound),", "break", "R-CONTRACT"),
    ("syncbb_unpack_swapped", _SB, "        var, val, cost = current_path[-1]", "        var, cost, val = current_path[-1]", "break", "R-CONTRACT"),
    ("funnel_coerces", "pydcop/infrastructure/computations.py", "            self.__value__ = val\n", "            self.__value__ = str(val)\n", "break", "R-FUNNEL"),
    ("random_selection_range", "pydcop/infrastructure/computations.py", "        value = random.choice(self.variable.domain)\n        self.value_selection(value)", "        value = random.randint(0, len(self.variable.domain))\n        self.value_selection(value)", "break", "R-FUNNEL"),
    ("mgm2_offer_key_swapped", "pydcop/algorithms/mgm2.py", "                offers[(limited_asgt[self.name], limited_asgt[self._partner.name])] = (", "                offers[(limited_asgt[self._partner.name], limited_asgt[self.name])] = (", "break", "R-CONTRACT"),
    ("n_index0", "pydcop/algorithms/dsa.py", "            self.value_selection(random.choice(best_values), best_cost)", "            self.value_selection(best_values[0], best_cost)", "neutral"),
]
