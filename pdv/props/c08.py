"""C08 - synchronous computations run in proper rounds.

Decided (structure of SynchronousComputationMixin on every syntactic path, and
conformance of every class that uses it):

* classification of an incoming message by its cycle id (current -> inbox,
  current+1 -> next inbox, anything else -> error), the duplicate-sender test
  precedes the store, no error on a path where the message is legitimate;
* end-of-round test (inbox size == number of neighbours) follows the store and
  is the only licence for `_switch_cycle`;
* `_switch_cycle`: one increment, before `on_new_cycle`; the sent-record is
  reset before `on_new_cycle` and never after; `on_new_cycle` gets the
  non-synchronisation messages of the *old* inbox and the old cycle id; every
  returned message is posted; every neighbour not served gets a
  SynchronizationMsg; the working list is a copy of the neighbour list; the
  hand-over `_cycle <- _next; _next <- fresh` comes last;
* `start`: base start first, sync to unserved neighbours, same hand-over;
* `post_msg`: the cycle stamp is unconditional, precedes the delegation, and the
  target is recorded on every path;
* every user class: mixin first in the MRO, no override of the mixin's
  machinery, `on_new_cycle` defined, no write to the mixin's state, sends only
  through `self.post_msg`.

Not decided: behaviour under all FIFO interleavings, at-most-one message per
neighbour and round inside each algorithm's `on_new_cycle`.
"""
import ast

from ..model import walk_no_nested, norm, call_name, is_self_attr, is_self_call, AnchorMissing
from ..facts import FuncFacts, facts_at, stmt_paths, count_paths, calls_hit, compare_holds, conjuncts
from ..report import Ctx, AnalysisError

CM = "pydcop.infrastructure.computations"
MIXIN = "SynchronousComputationMixin"
STATE = ("_current_cycle", "_cycle_messages", "_next_cycle_messages", "cycle_message_sent")
MACHINERY = ("start", "post_msg", "on_message", "_sync_message_handler", "_switch_cycle")


def _subscript_store(st, field):
    """self.<field>[k] = v  ->  (k, v) else None"""
    if isinstance(st, ast.Assign) and len(st.targets) == 1 and isinstance(st.targets[0], ast.Subscript) \
            and is_self_attr(st.targets[0].value, field):
        return st.targets[0].slice, st.value
    return None


def _field_assign(st, field):
    if isinstance(st, ast.Assign) and len(st.targets) == 1 and is_self_attr(st.targets[0], field):
        return st.value
    return None


def _is_fresh_container(e):
    return (isinstance(e, ast.Dict) and not e.keys) or (isinstance(e, ast.List) and not e.elts) or \
        (isinstance(e, ast.Call) and isinstance(e.func, ast.Name) and e.func.id in ("dict", "list") and not e.args and not e.keywords)


def _has_self_call(st, name):
    return any(isinstance(c, ast.Call) and is_self_call(c, name) for c in walk_no_nested(st))


def _mutates_in_place(st, field):
    """self.<field>.clear()/pop()/update()... or del self.<field>[..]"""
    for c in walk_no_nested(st):
        if isinstance(c, ast.Call) and isinstance(c.func, ast.Attribute) and is_self_attr(c.func.value, field) \
                and c.func.attr in ("clear", "pop", "popitem", "update", "setdefault", "remove", "append", "extend", "insert"):
            return True
    if isinstance(st, ast.Delete):
        for t in st.targets:
            if isinstance(t, ast.Subscript) and is_self_attr(t.value, field):
                return True
    return False


def _handover(ctx, f, stmts, rule, after_pred, what):
    """`self._cycle_messages = self._next_cycle_messages` followed by a rebinding of
    `_next_cycle_messages` to a fresh dict, both unconditional at the top level of
    the function and after every statement matching after_pred."""
    top = list(stmts)
    i_c = [i for i, s in enumerate(top) if _field_assign(s, "_cycle_messages") is not None]
    i_n = [i for i, s in enumerate(top) if _field_assign(s, "_next_cycle_messages") is not None]
    ok = len(i_c) == 1 and len(i_n) == 1
    node = top[i_c[0]] if i_c else f.node
    if ok:
        vc = _field_assign(top[i_c[0]], "_cycle_messages")
        vn = _field_assign(top[i_n[0]], "_next_cycle_messages")
        ok = is_self_attr(vc, "_next_cycle_messages") and _is_fresh_container(vn) and isinstance(vn, (ast.Dict, ast.Call)) and i_c[0] < i_n[0]
    ctx.check(ok, rule, f"{what}: inbox <- next inbox, then next inbox <- fresh dict", f, node,
              "the messages buffered for the next round must become the inbox of the new round, and the buffer must be rebound to a "
              "fresh dict afterwards (rebinding first, or clearing in place, loses or aliases the buffered messages)")
    if not ok:
        return
    # nothing in the function may mutate either container in place after the hand-over, and no conditional hand-over elsewhere
    others = [n for n in walk_no_nested(f.node) if isinstance(n, ast.stmt) and n not in top
              and (_field_assign(n, "_cycle_messages") is not None or _field_assign(n, "_next_cycle_messages") is not None)]
    inplace = [s for s in walk_no_nested(f.node) if isinstance(s, ast.stmt) and (_mutates_in_place(s, "_next_cycle_messages") or _mutates_in_place(s, "_cycle_messages"))]
    ctx.check(not others and not inplace, rule, f"{what}: no conditional / in-place change of the inboxes", f, (others + inplace + [node])[0],
              "the inboxes are only exchanged by the unconditional hand-over")
    last_other = max([i for i, s in enumerate(top) if after_pred(s)] or [-1])
    ctx.check(last_other < i_c[0], rule, f"{what}: hand-over after the round's sends", f, node,
              "the hand-over is the last step of the round: the old inbox must still be intact while the round is processed")


def _replay(ctx, repo):
    from .c19 import _drain_loops, buffer_uses
    buf = "_paused_messages_recv"
    n = 0
    for fn in ("start", "pause"):
        f = repo.func("pydcop.infrastructure.computations", f"MessagePassingComputation.{fn}")
        ctx.touch(f)
        for loop in _drain_loops(f.node, buf):
            n += 1
            if isinstance(loop, ast.While):
                ok = len([1 for k, _ in buffer_uses(loop, buf) if k in ("pop", "popleft")]) == 1
            else:
                blk = next(b for o in ast.walk(f.node) for b in (getattr(o, "body", None), getattr(o, "orelse", None)) if isinstance(b, list) and loop in b)
                after = blk[blk.index(loop) + 1:]
                ok = any(k in ("clear", "assign") for st in after for k, _ in buffer_uses(st, buf)) and not any(k in ("append", "insert", "extend") for k, _ in buffer_uses(loop, buf))
            ctx.check(ok, "R-REPLAY", f"MessagePassingComputation.{fn}: replay of {buf} removes each replayed message", f, loop,
                      "a round-0 message received before start() and left in the buffer is replayed again by the next pause(False): the mixin then sees a message of an old cycle "
                      "('invalid cycle' / 'two messages in a cycle')")
    if n < 2:
        ctx.defer(f"R-REPLAY: {n} replay loops found over {buf} (expected 2)")
    # replayed messages go back to the agent queue AHEAD of the algorithm messages already waiting there: their priority is a constant below MSG_ALGO
    from .c19 import _const
    msg_algo = _const(repo, "pydcop.infrastructure.communication", "MSG_ALGO")
    k = 0
    for fn in ("start", "pause"):
        f = repo.func("pydcop.infrastructure.computations", f"MessagePassingComputation.{fn}")
        for loop in _drain_loops(f.node, buf):
            for c in ast.walk(loop):
                if isinstance(c, ast.Call) and (is_self_attr(c.func, "_msg_sender") or is_self_attr(c.func, "message_sender")) and len(c.args) >= 4:
                    k += 1
                    pr = c.args[3]
                    pv = pr.value if isinstance(pr, ast.Constant) and isinstance(pr.value, int) else None
                    if isinstance(pr, ast.Name):
                        cm = repo.module("pydcop.infrastructure.communication").constants.get(pr.id) or repo.module("pydcop.infrastructure.computations").constants.get(pr.id)
                        pv = cm.value if cm is not None else None
                    ctx.check(pv is not None and pv < msg_algo, "R-REPLAY", f"MessagePassingComputation.{fn}: replayed messages are queued with a priority below MSG_ALGO ({msg_algo})", f, c,
                              "a round-i message kept during a pause must be handled before the round-(i+1) message of the same neighbour that is already waiting in the agent queue "
                              "with MSG_ALGO: replayed behind it, the round order of that channel is inverted and the mixin stalls")
    if k < 2:
        ctx.defer(f"R-REPLAY: {k} re-injection calls found (expected 2)")


def check(ctx: Ctx):
    repo = ctx.repo
    ctx.decided = ("three-way classification of incoming messages by cycle id with the duplicate test before the store and no error on "
                   "legitimate messages; end-of-round licence of _switch_cycle; order of effects in _switch_cycle and start (increment, "
                   "reset of the sent record, on_new_cycle arguments, posting of returned messages on a copy of the neighbour list, "
                   "sync message to every unserved neighbour, hand-over of the inboxes last); unconditional cycle stamp in post_msg; "
                   "conformance of every class that uses the mixin.")
    ctx.undecided = ("round-by-round progress under all FIFO interleavings; that an algorithm never sends two messages to one neighbour "
                     "in a round; loss of cycle_id on the wire (C15).")
    ctx.rule("R-CLASSIFY", "a message is stored in the inbox iff its cycle id is the current one (and its sender is a neighbour that has "
                           "not yet sent), in the next inbox iff it is current+1, and rejected otherwise; legitimate messages never raise")
    ctx.rule("R-ROUNDEND", "_switch_cycle is called exactly when the inbox holds one message per neighbour, after the store")
    ctx.rule("R-SWITCH", "effect order of _switch_cycle")
    ctx.rule("R-START", "effect order of start")
    ctx.rule("R-HANDOVER", "inbox <- next inbox; next inbox <- fresh dict; unconditional; last")
    ctx.rule("R-STAMP", "post_msg stamps the current cycle unconditionally before delegating and records the target")
    ctx.rule("R-INIT", "mixin state initialised; every declared message type and cycle_sync routed to the sync handler")
    ctx.rule("R-REPLAY", "a message kept while the computation was not started / paused is handed over exactly once: every replay loop empties what it replays")
    ctx.rule("R-CONFORM", "user classes: mixin first, machinery not overridden, on_new_cycle defined, mixin state not written, sends via self.post_msg")
    _replay(ctx, repo)

    mixin = repo.cls(CM, MIXIN)
    ctx.touch(mixin)
    _classify(ctx, repo, mixin)
    _switch(ctx, repo, mixin)
    _start(ctx, repo, mixin)
    _stamp(ctx, repo, mixin)
    _init(ctx, repo, mixin)
    _conform(ctx, repo, mixin)
    ctx.floor("R-CLASSIFY", 6)
    ctx.floor("R-SWITCH", 7)
    ctx.floor("R-CONFORM", 20)


# --------------------------------------------------------------------------- classification
def _classify(ctx, repo, mixin):
    f = repo.func(CM, MIXIN + "._sync_message_handler")
    ctx.touch(f)
    if len(f.params) < 5:
        raise AnalysisError("_sync_message_handler: expected (self, type, sender, msg, t)")
    p_sender, p_msg, p_t = f.params[2], f.params[3], f.params[4]
    cur = "self._current_cycle"
    cid = f"{p_msg}.cycle_id"
    paths = stmt_paths(f.node.body)
    if not paths:
        raise AnalysisError("_sync_message_handler has no path")

    def is_cur(p):
        return p.compare(cid, "==", cur)

    def is_next(p):
        return p.compare(cid, "==", f"{cur} + 1") or p.compare(cid, "==", f"1 + {cur}") or p.compare(f"{cid} - 1", "==", cur)

    def not_cur(p):
        return p.compare(cid, "!=", cur)

    def not_next(p):
        return p.compare(cid, "!=", f"{cur} + 1") or p.compare(cid, "!=", f"1 + {cur}")

    def is_neighbor(p):
        return p.has_fact(f"{p_sender} not in self.neighbors", False) or p.has_fact(f"{p_sender} in self.neighbors", True)

    def not_dup(p):
        return p.has_fact(f"{p_sender} in self._cycle_messages", False) or p.has_fact(f"{p_sender} not in self._cycle_messages", True)

    n_store = n_next = n_raise_else = 0
    for p in paths:
        st_cur = [s for s in p.stmts if _subscript_store(s, "_cycle_messages")]
        st_next = [s for s in p.stmts if _subscript_store(s, "_next_cycle_messages")]
        for s in st_cur:
            n_store += 1
            k, v = _subscript_store(s, "_cycle_messages")
            ctx.check(is_cur(p) and is_neighbor(p) and not_dup(p), "R-CLASSIFY", "store in the inbox only for a current-cycle message of a neighbour that has not sent yet", f, s,
                      "the inbox of round i may only receive a message stamped i, from a neighbour, at most once per neighbour (a second one would overwrite the first)")
            ctx.check(norm(k) == p_sender and isinstance(v, ast.Tuple) and len(v.elts) == 2 and norm(v.elts[0]) == p_msg and norm(v.elts[1]) == p_t,
                      "R-CLASSIFY", "inbox entry = sender -> (msg, t)", f, s, "on_new_cycle is handed {sender: (message, time)}")
        for s in st_next:
            n_next += 1
            k, v = _subscript_store(s, "_next_cycle_messages")
            ctx.check(is_next(p) and not is_cur(p) and is_neighbor(p), "R-CLASSIFY", "store in the next inbox only for a message of cycle current+1", f, s,
                      "a neighbour may be at most one round ahead; only its round i+1 message may be buffered for the next round")
            ctx.check(norm(k) == p_sender and isinstance(v, ast.Tuple) and len(v.elts) == 2 and norm(v.elts[0]) == p_msg and norm(v.elts[1]) == p_t,
                      "R-CLASSIFY", "next-inbox entry = sender -> (msg, t)", f, s, "")
        if is_neighbor(p) and ((is_cur(p) and not_dup(p)) or (is_next(p) and not is_cur(p))):
            ctx.check(p.exit != "raise", "R-CLASSIFY", "legitimate message never raises", f, p.exit_stmt or f.node,
                      "a message for the current or the next round from a neighbour is valid under FIFO delivery: raising here is a spurious 'invalid cycle' error")
            if is_cur(p):
                ctx.check(len(st_cur) == 1 and not st_next, "R-CLASSIFY", "current-cycle message stored exactly once in the inbox", f, (st_cur or [f.node])[0],
                          "a current-cycle message that is not recorded is never handed to on_new_cycle and the round cannot end")
            else:
                ctx.check(len(st_next) == 1 and not st_cur, "R-CLASSIFY", "next-cycle message buffered exactly once", f, (st_next or [f.node])[0],
                          "a message of the next round must be kept for that round")
        if not_cur(p) and not_next(p):
            n_raise_else += 1
            ctx.check(p.exit == "raise" and not st_cur and not st_next, "R-CLASSIFY", "any other cycle id is rejected", f, p.exit_stmt or f.node,
                      "a message more than one round away indicates a broken synchronisation and must not be stored")
        if p.has_fact(f"{p_sender} not in self.neighbors", True) or p.has_fact(f"{p_sender} in self.neighbors", False):
            ctx.check(p.exit == "raise" and not st_cur and not st_next, "R-CLASSIFY", "message of a non-neighbour is rejected", f, p.exit_stmt or f.node, "")
        if is_cur(p) and (p.has_fact(f"{p_sender} in self._cycle_messages", True) or p.has_fact(f"{p_sender} not in self._cycle_messages", False)):
            ctx.check(p.exit == "raise" and not st_cur, "R-CLASSIFY", "second message of a sender in one round is rejected before any store", f, p.exit_stmt or f.node,
                      "the duplicate test must come before the store; otherwise the first message is silently replaced")
        # round end
        sw = [i for i, s in enumerate(p.stmts) if _has_self_call(s, "_switch_cycle")]
        full = p.compare("len(self._cycle_messages)", "==", "len(self.neighbors)") or p.compare("len(self._cycle_messages)", ">=", "len(self.neighbors)")
        notfull = p.compare("len(self._cycle_messages)", "!=", "len(self.neighbors)") or p.compare("len(self._cycle_messages)", "<", "len(self.neighbors)")
        if sw:
            i_store = p.index(lambda s: _subscript_store(s, "_cycle_messages") is not None)
            ctx.check(len(sw) == 1 and full and i_store >= 0 and i_store < sw[0], "R-ROUNDEND", "switch only when the inbox is full, after storing the message", f, p.stmts[sw[0]],
                      "the round ends when one message per neighbour has been stored (the test must see the message just received)")
        elif st_cur:
            ctx.check(notfull, "R-ROUNDEND", "a full inbox always switches", f, st_cur[0],
                      "when the last awaited message of the round is stored the computation must move to the next round, otherwise it stalls")
    if n_store == 0 and n_next == 0:
        raise AnalysisError(f"_sync_message_handler: classification not recognised (stores={n_store}, next={n_next}, reject={n_raise_else})")
    ctx.check(n_store > 0, "R-CLASSIFY", "some path stores a current-cycle message", f, f.node, "no path records a message of the current round")
    ctx.check(n_next > 0, "R-CLASSIFY", "some path buffers a next-cycle message", f, f.node,
              "a neighbour may legitimately be one round ahead: its message must be buffered, not rejected or mixed into the current inbox")
    ctx.check(n_raise_else > 0, "R-CLASSIFY", "some path rejects any other cycle id", f, f.node,
              "no path on which the cycle id is known to be neither the current nor the next one: messages of arbitrary rounds are accepted")


# --------------------------------------------------------------------------- _switch_cycle
def _top_index(top, pred):
    return [i for i, s in enumerate(top) if pred(s)]


def _sync_loop(ctx, f, loop, src_ok, rule, what):
    """for n in <src>: if n not in self.cycle_message_sent: self.post_msg(n, SynchronizationMsg())"""
    ok = isinstance(loop, ast.For) and isinstance(loop.target, ast.Name) and src_ok(loop.iter)
    posts = []
    if ok:
        nv = loop.target.id
        ff = FuncFacts(f.node)
        for c in ast.walk(loop):
            if isinstance(c, ast.Call) and is_self_call(c, "post_msg") and len(c.args) >= 2 and isinstance(c.args[1], ast.Call) and call_name(c.args[1]) == "SynchronizationMsg":
                posts.append(c)
        shared = [c for c in ast.walk(loop) if isinstance(c, ast.Call) and is_self_call(c, "post_msg") and len(c.args) >= 2 and norm(c.args[0]) == nv and not isinstance(c.args[1], ast.Call)]
        if shared and not posts:
            ctx.bad(rule, f"{what}: a fresh SynchronizationMsg per send", f, shared[0],
                    f"`{norm(shared[0].args[1])}` is one object sent again and again: post_msg stamps the round on the object itself and in-process "
                    "messages are passed by reference, so a synchronisation message still waiting in a neighbour's queue changes round under its feet")
            return False
        ok = len(posts) == 1 and norm(posts[0].args[0]) == nv
        if ok:
            facts = {(norm(t), p) for t, p in facts_at(ff, posts[0])}
            extra = {x for x in facts if x not in ((f"{nv} not in self.cycle_message_sent", True), (f"{nv} in self.cycle_message_sent", False))}
            served = (f"{nv} not in self.cycle_message_sent", True) in facts or (f"{nv} in self.cycle_message_sent", False) in facts
            ok = served and not extra
            # no early exit from the loop
            ok = ok and not any(isinstance(n, (ast.Break, ast.Return)) for n in ast.walk(loop))
    ctx.check(ok, rule, f"{what}: SynchronizationMsg to every neighbour not yet served in this round", f, loop,
              "each neighbour must receive exactly one message per round: an algorithm message or an implicit synchronisation; the only "
              "licence to skip a neighbour is that a message was already posted to it in this round")
    return ok


def _is_neighbors_copy(e):
    return (isinstance(e, ast.Call) and isinstance(e.func, ast.Name) and e.func.id in ("list", "set", "sorted", "tuple") and len(e.args) == 1 and norm(e.args[0]) == "self.neighbors") or \
        (isinstance(e, ast.Subscript) and norm(e.value) == "self.neighbors" and isinstance(e.slice, ast.Slice) and e.slice.lower is None and e.slice.upper is None) or \
        (isinstance(e, ast.Call) and isinstance(e.func, ast.Attribute) and e.func.attr == "copy" and norm(e.func.value) == "self.neighbors") or \
        (isinstance(e, ast.ListComp) and len(e.generators) == 1 and norm(e.generators[0].iter) == "self.neighbors" and not e.generators[0].ifs and norm(e.elt) == norm(e.generators[0].target))


def _switch(ctx, repo, mixin):
    f = repo.func(CM, MIXIN + "._switch_cycle")
    ctx.touch(f)
    top = list(f.node.body)
    # 1. exactly one increment on every path
    def inc(st):
        return 1 if (isinstance(st, ast.AugAssign) and is_self_attr(st.target, "_current_cycle") and isinstance(st.op, ast.Add)
                     and isinstance(st.value, ast.Constant) and st.value.value == 1) or \
            (isinstance(st, ast.Assign) and is_self_attr(st.targets[0], "_current_cycle") and norm(st.value) in ("self._current_cycle + 1", "1 + self._current_cycle")) else 0
    other_writes = [n for n in walk_no_nested(f.node) if isinstance(n, (ast.Assign, ast.AugAssign)) and not inc(n)
                    and any(is_self_attr(t, "_current_cycle") for t in (n.targets if isinstance(n, ast.Assign) else [n.target]))]
    o = count_paths(f.node.body, inc)
    ok = all(v == (1, 1) for k, v in o.k.items() if k in ("fall", "return")) and not other_writes
    i_inc = _top_index(top, lambda s: inc(s) == 1)
    ctx.check(ok and len(i_inc) == 1, "R-SWITCH", "round counter incremented by exactly one, unconditionally", f, top[i_inc[0]] if i_inc else f.node,
              "each end of round advances the counter by one: skipping or doubling it makes the stamps of this computation invalid for its neighbours")
    # 2. on_new_cycle call
    calls = [c for c in walk_no_nested(f.node) if isinstance(c, ast.Call) and is_self_call(c, "on_new_cycle")]
    if len(calls) != 1:
        ctx.bad("R-SWITCH", "on_new_cycle called exactly once", f, f.node, f"{len(calls)} calls of on_new_cycle in _switch_cycle")
        return
    call = calls[0]
    i_call = _top_index(top, lambda s: any(n is call for n in ast.walk(s)))
    if len(i_call) != 1:
        ctx.bad("R-SWITCH", "on_new_cycle called unconditionally", f, call, "on_new_cycle must be called on every end of round")
        return
    i_call = i_call[0]
    ctx.check(bool(i_inc) and i_inc[0] < i_call, "R-SWITCH", "increment precedes on_new_cycle", f, top[i_call],
              "messages posted from on_new_cycle are stamped with the counter: they belong to the new round")
    # cycle id argument = old cycle
    args = list(call.args) + [k.value for k in call.keywords]
    cyc = call.args[1] if len(call.args) > 1 else next((k.value for k in call.keywords if k.arg == "cycle_id"), None)
    ok = cyc is not None and norm(cyc) in ("self._current_cycle - 1", "self.current_cycle - 1", "self.cycle_count - 1")
    if cyc is not None and isinstance(cyc, ast.Name):
        # a local captured before the increment
        defs = [(i, s) for i, s in enumerate(top) if isinstance(s, ast.Assign) and norm(s.targets[0]) == cyc.id]
        ok = len(defs) == 1 and norm(defs[0][1].value) in ("self._current_cycle", "self.current_cycle") and bool(i_inc) and defs[0][0] < i_inc[0]
    ctx.check(ok, "R-SWITCH", "on_new_cycle receives the id of the round that just ended", f, call,
              "cycle_id handed to the algorithm is the round whose messages it is given (counter before the increment)")
    # messages argument: the old inbox without synchronisation messages
    m = call.args[0] if call.args else next((k.value for k in call.keywords if k.arg == "messages"), None)
    ok = False
    where = call
    if isinstance(m, ast.Name):
        defs = [(i, s) for i, s in enumerate(top) if isinstance(s, ast.Assign) and norm(s.targets[0]) == m.id]
        if len(defs) == 1 and defs[0][0] < i_call:
            m = defs[0][1].value
            where = defs[0][1]
    if isinstance(m, ast.DictComp) and len(m.generators) == 1:
        g = m.generators[0]
        src = norm(g.iter) == "self._cycle_messages.items()"
        tgt = g.target
        ok = src and isinstance(tgt, ast.Tuple) and len(tgt.elts) == 2
        if ok:
            kname = norm(tgt.elts[0])
            v = tgt.elts[1]
            if isinstance(v, ast.Tuple) and len(v.elts) == 2:
                mname, tname = norm(v.elts[0]), norm(v.elts[1])
                val_ok = norm(m.value) in (f"({mname}, {tname})",)
                filt = [norm(c) for c in g.ifs]
                ok = norm(m.key) == kname and val_ok and filt in ([f"not isinstance({mname}, SynchronizationMsg)"], [f"{mname}.type != 'cycle_sync'"])
            else:
                vname = norm(v)
                filt = [norm(c) for c in g.ifs]
                ok = norm(m.key) == kname and norm(m.value) == vname and filt in ([f"not isinstance({vname}[0], SynchronizationMsg)"], [f"{vname}[0].type != 'cycle_sync'"])
    ctx.check(ok, "R-SWITCH", "on_new_cycle receives exactly the algorithm messages of the ended round", f, where,
              "the algorithm is handed {sender: (message, time)} for every neighbour that sent an algorithm message in the previous round; "
              "implicit synchronisation messages are filtered out, nothing else is")
    # 3. reset of the sent record: exactly one, unconditional, before on_new_cycle
    resets = [n for n in walk_no_nested(f.node) if isinstance(n, ast.stmt) and
              ((_field_assign(n, "cycle_message_sent") is not None) or _mutates_in_place_clear(n, "cycle_message_sent"))]
    i_reset = _top_index(top, lambda s: s in resets)
    ok = len(resets) == 1 and len(i_reset) == 1 and i_reset[0] < i_call
    if ok:
        v = _field_assign(resets[0], "cycle_message_sent")
        ok = v is None or _is_fresh_container(v)
    ctx.check(ok, "R-SWITCH", "record of served neighbours reset once, before on_new_cycle", f, (resets or [f.node])[0],
              "the record must be empty when the round's sends begin and must survive until the synchronisation loop: resetting it later "
              "sends a second message to a neighbour already served; not resetting it starves neighbours of their sync message")
    # 4. returned messages posted, working list is a copy
    rn = None
    for i, s in enumerate(top):
        if isinstance(s, ast.Assign) and isinstance(s.targets[0], ast.Name):
            loops_after = [l for l in top[i + 1:] if isinstance(l, ast.For) and norm(l.iter) == s.targets[0].id]
            if loops_after and ("self.neighbors" in norm(s.value)):
                rn = (i, s, loops_after[0])
    res_name = None
    st_call = top[i_call]
    if isinstance(st_call, ast.Assign) and isinstance(st_call.targets[0], ast.Name):
        res_name = st_call.targets[0].id
    if rn is None:
        # sync loop directly over a copy of self.neighbors
        loops = [l for l in top[i_call + 1:] if isinstance(l, ast.For) and ("self.neighbors" in norm(l.iter))]
        if not loops:
            ctx.bad("R-SWITCH", "synchronisation loop", f, f.node, "no loop over the neighbours after on_new_cycle: silent neighbours never get their synchronisation message")
            return
        loop = loops[0]
        _sync_loop(ctx, f, loop, lambda e: norm(e) == "self.neighbors" or _is_neighbors_copy(e), "R-SWITCH", "_switch_cycle")
        i_loop = top.index(loop)
    else:
        i_rn, s_rn, loop = rn
        ctx.check(_is_neighbors_copy(s_rn.value), "R-SWITCH", "working list of unserved neighbours is a copy of the neighbour list", f, s_rn,
                  "targets are removed from this list: operating on self.neighbors itself would shrink the computation's own neighbour list")
        name = s_rn.targets[0].id
        _sync_loop(ctx, f, loop, lambda e: norm(e) == name, "R-SWITCH", "_switch_cycle")
        i_loop = top.index(loop)
        # nothing but removals of served targets may shrink the working list
        for n in walk_no_nested(f.node):
            if isinstance(n, ast.Call) and isinstance(n.func, ast.Attribute) and norm(n.func.value) == name and n.func.attr in ("remove", "pop", "clear", "discard"):
                pass
    if res_name is not None:
        # every returned (target, message) is posted
        posted = False
        node = st_call
        for s in top[i_call + 1:]:
            for l in ast.walk(s):
                if isinstance(l, ast.For) and norm(l.iter) == res_name and isinstance(l.target, ast.Tuple) and len(l.target.elts) == 2:
                    tn, mn = norm(l.target.elts[0]), norm(l.target.elts[1])
                    node = l
                    ps = [c for c in ast.walk(l) if isinstance(c, ast.Call) and is_self_call(c, "post_msg") and len(c.args) >= 2 and norm(c.args[0]) == tn and norm(c.args[1]) == mn]
                    ffl = FuncFacts(f.node)
                    if len(ps) == 1:
                        gs = [g for g in ffl.guards_at(ps[0]) if g.kind == "if"]
                        inner = [g for g in gs if any(n is g.node for n in ast.walk(l))]
                        posted = not inner and not any(isinstance(n, (ast.Break, ast.Continue, ast.Return)) for n in ast.walk(l))
        ctx.check(posted, "R-SWITCH", "every message returned by on_new_cycle is posted to its target", f, node,
                  "messages returned by the algorithm are this round's sends; each must go through post_msg (stamp + record)")
    ctx.check(i_loop > i_call, "R-SWITCH", "synchronisation loop follows on_new_cycle", f, loop,
              "which neighbours are still unserved is only known after the algorithm has sent its messages")
    # 5. hand-over last
    _handover(ctx, f, top, "R-HANDOVER", lambda s: s is loop or s is st_call or any(n is call for n in ast.walk(s)), "_switch_cycle")


def _mutates_in_place_clear(st, field):
    for c in walk_no_nested(st):
        if isinstance(c, ast.Call) and isinstance(c.func, ast.Attribute) and is_self_attr(c.func.value, field) and c.func.attr == "clear":
            return True
    return False


# --------------------------------------------------------------------------- start
def _start(ctx, repo, mixin):
    f = repo.func(CM, MIXIN + ".start")
    ctx.touch(f)
    top = list(f.node.body)
    sup = _top_index(top, lambda s: isinstance(s, ast.Expr) and isinstance(s.value, ast.Call) and isinstance(s.value.func, ast.Attribute)
                     and s.value.func.attr == "start" and isinstance(s.value.func.value, ast.Call) and call_name(s.value.func.value) == "super")
    ctx.check(len(sup) == 1 and sup[0] == min(i for i, s in enumerate(top) if not (isinstance(s, ast.Expr) and isinstance(s.value, ast.Constant))),
              "R-START", "base start (on_start = round 0) runs first", f, top[sup[0]] if sup else f.node,
              "round 0 is the algorithm's on_start; the synchronisation messages of round 0 are decided after it")
    loops = [l for l in top if isinstance(l, ast.For) and "self.neighbors" in norm(l.iter)]
    if not loops:
        ctx.bad("R-START", "synchronisation loop of round 0", f, f.node, "neighbours that got no message from on_start never receive a round-0 message and wait forever")
        return
    loop = loops[0]
    _sync_loop(ctx, f, loop, lambda e: norm(e) == "self.neighbors" or _is_neighbors_copy(e), "R-START", "start")
    ctx.check(bool(sup) and top.index(loop) > sup[0], "R-START", "round-0 synchronisation follows on_start", f, loop, "")
    # the counter and the sent record are not touched by start (round 0)
    w = [n for n in walk_no_nested(f.node) if isinstance(n, (ast.Assign, ast.AugAssign)) and
         any(is_self_attr(t, "_current_cycle") or is_self_attr(t, "cycle_message_sent") for t in (n.targets if isinstance(n, ast.Assign) else [n.target]))]
    ctx.check(not w, "R-START", "start leaves the round counter and the sent record alone", f, (w or [f.node])[0],
              "start-up is round 0: messages posted by on_start and the synchronisation messages carry stamp 0; the record of served "
              "neighbours filled by on_start is what the synchronisation loop consults")
    _handover(ctx, f, top, "R-HANDOVER", lambda s: s is loop or (sup and s is top[sup[0]]), "start")


# --------------------------------------------------------------------------- post_msg
def _stamp(ctx, repo, mixin):
    f = repo.func(CM, MIXIN + ".post_msg")
    ctx.touch(f)
    if len(f.params) < 3:
        raise AnalysisError("mixin post_msg: expected (self, target, msg, ...)")
    p_target, p_msg = f.params[1], f.params[2]
    top = list(f.node.body)
    stamps = [n for n in walk_no_nested(f.node) if isinstance(n, ast.Assign) and any(isinstance(t, ast.Attribute) and t.attr == "cycle_id" for t in n.targets)]
    i_st = _top_index(top, lambda s: s in stamps)
    ok = len(stamps) == 1 and len(i_st) == 1 and norm(stamps[0].targets[0]) == f"{p_msg}.cycle_id" and norm(stamps[0].value) in ("self._current_cycle", "self.current_cycle", "self.cycle_count")
    ctx.check(ok, "R-STAMP", "every posted message is stamped with the current round, unconditionally", f, (stamps or [f.node])[0],
              "the receiver classifies a message by this stamp; a message object that is posted again (same object to several neighbours, "
              "or re-sent in a later round) must carry the round of *this* emission")
    dele = [c for c in walk_no_nested(f.node) if isinstance(c, ast.Call) and isinstance(c.func, ast.Attribute) and c.func.attr == "post_msg"
            and isinstance(c.func.value, ast.Call) and call_name(c.func.value) == "super"]
    i_de = _top_index(top, lambda s: any(n in dele for n in ast.walk(s)))
    ok2 = len(dele) == 1 and len(i_de) == 1 and len(dele[0].args) >= 2 and norm(dele[0].args[0]) == p_target and norm(dele[0].args[1]) == p_msg
    ctx.check(ok2, "R-STAMP", "delegates (target, msg) to the base post_msg unconditionally", f, (dele or [f.node])[0], "")
    ctx.check(ok and ok2 and i_st[0] < i_de[0], "R-STAMP", "stamp precedes the delegation", f, (stamps or [f.node])[0],
              "the base post_msg hands the message to the messaging layer (which may encode or deliver it at once)")
    rec = [c for c in walk_no_nested(f.node) if isinstance(c, ast.Call) and isinstance(c.func, ast.Attribute) and is_self_attr(c.func.value, "cycle_message_sent")
           and c.func.attr in ("append", "add")]
    i_rec = _top_index(top, lambda s: any(n in rec for n in ast.walk(s)))
    ctx.check(len(rec) == 1 and len(i_rec) == 1 and len(rec[0].args) == 1 and norm(rec[0].args[0]) == p_target, "R-STAMP", "target recorded as served on every path", f, (rec or [f.node])[0],
              "the synchronisation loop skips exactly the neighbours recorded here")


# --------------------------------------------------------------------------- init
def _init(ctx, repo, mixin):
    f = repo.func(CM, MIXIN + ".__init__")
    ctx.touch(f)
    top = list(f.node.body)
    for fld, okv in (("_current_cycle", lambda v: isinstance(v, ast.Constant) and v.value == 0),
                     ("_cycle_messages", lambda v: _is_fresh_container(v) and not isinstance(v, ast.List)),
                     ("_next_cycle_messages", lambda v: _is_fresh_container(v) and not isinstance(v, ast.List)),
                     ("cycle_message_sent", _is_fresh_container)):
        vs = [(s, _field_assign(s, fld)) for s in top if _field_assign(s, fld) is not None]
        ctx.check(len(vs) == 1 and okv(vs[0][1]), "R-INIT", f"{fld} initialised (round 0, empty)", f, vs[0][0] if vs else f.node, "")
    # distinct containers
    a = [s for s in top if _field_assign(s, "_cycle_messages") is not None]
    t = norm(f.node)
    sup = any(isinstance(c, ast.Call) and isinstance(c.func, ast.Attribute) and c.func.attr == "__init__" and isinstance(c.func.value, ast.Call) and call_name(c.func.value) == "super"
              for c in walk_no_nested(f.node))
    ctx.check(sup, "R-INIT", "cooperative __init__ (super().__init__)", f, f.node, "the computation base must be initialised through the MRO")
    # routing of handlers
    d = [s for s in top if _field_assign(s, "_decorated_handlers") is not None]
    ok = len(d) == 1 and isinstance(_field_assign(d[0], "_decorated_handlers"), ast.Dict)
    if ok:
        dd = _field_assign(d[0], "_decorated_handlers")
        ok = any(isinstance(k, ast.Constant) and k.value == "cycle_sync" and is_self_attr(v, "_sync_message_handler") for k, v in zip(dd.keys, dd.values))
    ctx.check(ok, "R-INIT", "cycle_sync routed to the sync handler in an instance-level table", f, d[0] if d else f.node,
              "implicit synchronisation messages must be counted like algorithm messages")
    loops = [l for l in top if isinstance(l, ast.For) and "_decorated_handlers" in norm(l.iter)]
    ok = False
    if loops:
        l = loops[0]
        st = [s for s in l.body if isinstance(s, ast.Assign) and isinstance(s.targets[0], ast.Subscript) and is_self_attr(s.targets[0].value, "_decorated_handlers")]
        tg = l.target.elts[0] if isinstance(l.target, ast.Tuple) else l.target
        ok = len(st) == 1 and is_self_attr(st[0].value, "_sync_message_handler") and norm(st[0].targets[0].slice) == norm(tg) and len(l.body) == 1 \
            and "__class__._decorated_handlers" in norm(l.iter)
    ctx.check(ok, "R-INIT", "every declared message type routed to the sync handler", f, loops[0] if loops else f.node,
              "all algorithm messages go through the round bookkeeping; none is delivered directly")
    # SynchronizationMsg type agrees with the routing key
    sm = repo.cls(CM, "SynchronizationMsg")
    ini = sm.methods.get("__init__")
    ok = ini is not None and any(isinstance(c, ast.Call) and isinstance(c.func, ast.Attribute) and c.func.attr == "__init__" and c.args and isinstance(c.args[0], ast.Constant)
                                 and c.args[0].value == "cycle_sync" for c in ast.walk(ini.node))
    ctx.check(ok, "R-INIT", "SynchronizationMsg type == 'cycle_sync'", sm, ini.node if ini else sm.node, "the type string is the routing key registered by the mixin")


# --------------------------------------------------------------------------- conformance
def _conform(ctx, repo, mixin):
    users = [c for c in repo.all_classes() if c is not mixin and mixin in repo.mro(c)]
    if len(users) < 4:
        raise AnalysisError(f"only {len(users)} classes use the synchronous mixin (floor 4)")
    mpc = repo.cls(CM, "MessagePassingComputation")
    for c in users:
        ctx.touch(c)
        mro = repo.mro(c)
        ctx.check(mpc in mro and mro.index(mixin) < mro.index(mpc) and all(mro.index(mixin) < mro.index(x) for x in mro if x is not c and x is not mixin and mpc in repo.mro(x)),
                  "R-CONFORM", f"{c.name}: mixin precedes every computation base in the MRO", c, c.node,
                  "start/post_msg of the mixin must wrap the base implementations")
        for m in MACHINERY:
            owner = next((k for k in mro if m in k.methods), None)
            if m == "on_message":
                ok = owner is not None and owner is not c and (owner is mpc or mpc in repo.mro(owner)) and not any(m in k.methods for k in mro[:mro.index(mixin)])
            else:
                ok = owner is mixin
            ctx.check(ok, "R-CONFORM", f"{c.name}: {m} is the mixin's / base's", c, (c.methods[m].node if m in c.methods else c.node),
                      "a user class that overrides the round machinery bypasses the bookkeeping")
        onc = next((k for k in mro if "on_new_cycle" in k.methods), None)
        ctx.check(onc is not None and onc is not mixin and mro.index(onc) < mro.index(mixin), "R-CONFORM", f"{c.name}: on_new_cycle defined", c, c.node,
                  "the mixin's default on_new_cycle does nothing")
        # own __init__ reaches the mixin's
        ini = c.methods.get("__init__")
        if ini is not None:
            ok = any(isinstance(k, ast.Call) and isinstance(k.func, ast.Attribute) and k.func.attr == "__init__" and
                     ((isinstance(k.func.value, ast.Call) and call_name(k.func.value) == "super" and (not k.func.value.args or norm(k.func.value.args[0]) == c.name))
                      or norm(k.func.value) == MIXIN) for k in walk_no_nested(ini.node))
            ctx.check(ok, "R-CONFORM", f"{c.name}: __init__ initialises the mixin", ini, ini.node, "super().__init__ must start at the class itself so that the mixin's state exists")
        for fn in c.methods.values():
            for n in ast.walk(fn.node):
                # writes to mixin state
                tgts = []
                if isinstance(n, ast.Assign):
                    tgts = n.targets
                elif isinstance(n, (ast.AugAssign, ast.AnnAssign)):
                    tgts = [n.target]
                elif isinstance(n, ast.Delete):
                    tgts = n.targets
                for t in tgts:
                    base = t.value if isinstance(t, ast.Subscript) else t
                    if any(is_self_attr(base, s) for s in STATE) or (isinstance(t, ast.Attribute) and t.attr == "cycle_id"):
                        ctx.bad("R-CONFORM", f"{c.name}.{fn.name}: writes mixin state", fn, n, "only the mixin maintains the round bookkeeping")
                if isinstance(n, ast.Call) and isinstance(n.func, ast.Attribute) and n.func.attr in ("clear", "pop", "append", "remove", "update") and any(is_self_attr(n.func.value, s) for s in STATE):
                    ctx.bad("R-CONFORM", f"{c.name}.{fn.name}: mutates mixin state", fn, n, "only the mixin maintains the round bookkeeping")
                # sends that bypass self.post_msg
                if isinstance(n, ast.Call) and isinstance(n.func, ast.Attribute) and n.func.attr == "post_msg":
                    v = n.func.value
                    direct = isinstance(v, ast.Name) and v.id == "self"
                    ctx.check(direct, "R-CONFORM", f"{c.name}.{fn.name}: sends through self.post_msg", fn, n,
                              "super().post_msg / Base.post_msg(self, ..) / message_sender skip the cycle stamp and the served record")
                if isinstance(n, ast.Attribute) and n.attr in ("message_sender", "_msg_sender") and is_self_attr(n) and isinstance(getattr(n, "ctx", None), ast.Load):
                    ctx.bad("R-CONFORM", f"{c.name}.{fn.name}: uses the raw message sender", fn, n, "raw sends skip the cycle stamp")
    # the broadcast helper used by the user classes goes through self.post_msg
    for cls_name in ("DcopComputation",):
        k = repo.cls(CM, cls_name)
        pa = k.methods.get("post_to_all_neighbors")
        if pa is None:
            raise AnchorMissing("DcopComputation.post_to_all_neighbors not found")
        ctx.touch(pa)
        loops = [l for l in walk_no_nested(pa.node) if isinstance(l, ast.For) and norm(l.iter) in ("self.neighbors", "list(self.neighbors)", "self._neighbors")]
        ok = False
        if len(loops) == 1 and isinstance(loops[0].target, ast.Name):
            nv = loops[0].target.id
            ps = [c for c in ast.walk(loops[0]) if isinstance(c, ast.Call) and is_self_call(c, "post_msg") and c.args and norm(c.args[0]) == nv]
            ff = FuncFacts(pa.node)
            ok = len(ps) == 1 and not [g for g in ff.guards_at(ps[0]) if g.kind == "if"] and not any(isinstance(n, (ast.Break, ast.Continue, ast.Return)) for n in ast.walk(loops[0]))
        ctx.check(ok, "R-CONFORM", "post_to_all_neighbors posts to every neighbour through self.post_msg", pa, pa.node,
                  "the broadcast used by Max-Sum/DSA-tuto/NCBB must be stamped and recorded per neighbour by the mixin's post_msg")


_F = "pydcop/infrastructure/computations.py"
VARIANTS = [
    ("resume_replays_behind_waiting_messages", _F, "                self._msg_sender(src, self.name, msg, 19)\n            self.logger.debug(\n                \"On resume", "                self._msg_sender(src, self.name, msg, 21)\n            self.logger.debug(\n                \"On resume", "break", "R-REPLAY"),
    ("start_replays_without_emptying", _F, "        pending_msg_count = 0\n        while self._paused_messages_recv:\n            pending_msg_count += 1\n            src, msg, t = self._paused_messages_recv.pop(0)\n",
     "        pending_msg_count = len(self._paused_messages_recv)\n        for src, msg, t in self._paused_messages_recv:\n", "break", "R-REPLAY"),
    ("copy_dropped", _F, "        remaining_neighbors = list(self.neighbors)\n", "        remaining_neighbors = self.neighbors\n", "break", "R-SWITCH"),
    ("stamp_conditional", _F, "        msg.cycle_id = self._current_cycle\n        super(SynchronousComputationMixin, self).post_msg",
     "        if getattr(msg, 'cycle_id', None) is None:\n            msg.cycle_id = self._current_cycle\n        super(SynchronousComputationMixin, self).post_msg", "break", "R-STAMP"),
    ("stamp_after_delegate", _F, "        msg.cycle_id = self._current_cycle\n        super(SynchronousComputationMixin, self).post_msg(target, msg, prio, on_error)\n",
     "        super(SynchronousComputationMixin, self).post_msg(target, msg, prio, on_error)\n        msg.cycle_id = self._current_cycle\n", "break", "R-STAMP"),
    ("record_dropped", _F, "        self.cycle_message_sent.append(target)\n", "", "break", "R-STAMP"),
    ("dup_test_after_store", _F, "        if msg.cycle_id == self._current_cycle:\n\n            if sender in self._cycle_messages:",
     "        if msg.cycle_id == self._current_cycle:\n            self._cycle_messages[sender] = (msg, t)\n            if sender in self._cycle_messages:", "break", "R-CLASSIFY"),
    ("next_cycle_accepts_any_future", _F, "        elif msg.cycle_id == self._current_cycle + 1:", "        elif msg.cycle_id > self._current_cycle:", "break", "R-CLASSIFY"),
    ("next_cycle_stored_in_current", _F, "            self._next_cycle_messages[sender] = (msg, t)", "            self._cycle_messages[sender] = (msg, t)", "break", "R-CLASSIFY"),
    ("round_end_off_by_one", _F, "            if len(self._cycle_messages) == len(self.neighbors):\n                self._switch_cycle()",
     "            if len(self._cycle_messages) == len(self.neighbors) - 1:\n                self._switch_cycle()", "break", "R-ROUNDEND"),
    ("switch_before_store", _F, "            self._cycle_messages[sender] = (msg, t)\n\n            # Check if end of cycle, Call on cycle.\n            if len(self._cycle_messages) == len(self.neighbors):\n                self._switch_cycle()\n",
     "            # Check if end of cycle, Call on cycle.\n            if len(self._cycle_messages) + 1 == len(self.neighbors):\n                self._switch_cycle()\n                self._cycle_messages[sender] = (msg, t)\n", "break", "R-"),
    ("increment_after_on_new_cycle", _F, "        self._current_cycle += 1\n        algo_message = {", "        algo_message = {", "break", "R-SWITCH"),
    ("cycle_arg_is_new_cycle", _F, "self.on_new_cycle(algo_message, self._current_cycle - 1)", "self.on_new_cycle(algo_message, self._current_cycle)", "break", "R-SWITCH"),
    ("sync_filter_dropped", _F, "            for k, (msg, t) in self._cycle_messages.items()\n            if not isinstance(msg, SynchronizationMsg)\n", "            for k, (msg, t) in self._cycle_messages.items()\n", "break", "R-SWITCH"),
    ("reset_after_on_new_cycle", _F, "        self.cycle_message_sent = []\n        messages = self.on_new_cycle(algo_message, self._current_cycle - 1)\n",
     "        messages = self.on_new_cycle(algo_message, self._current_cycle - 1)\n        self.cycle_message_sent = []\n", "break", "R-SWITCH"),
    ("reset_dropped", _F, "        self.cycle_message_sent = []\n        messages = self.on_new_cycle", "        messages = self.on_new_cycle", "break", "R-SWITCH"),
    ("handover_reversed", _F, "                self.post_msg(neighbor, SynchronizationMsg())\n\n        self._cycle_messages = self._next_cycle_messages\n        self._next_cycle_messages = {}\n\n    @property",
     "                self.post_msg(neighbor, SynchronizationMsg())\n\n        self._next_cycle_messages = {}\n        self._cycle_messages = self._next_cycle_messages\n\n    @property", "break", "R-HANDOVER"),
    ("handover_clear_in_place", _F, "                self.post_msg(neighbor, SynchronizationMsg())\n\n        self._cycle_messages = self._next_cycle_messages\n        self._next_cycle_messages = {}\n\n    @property",
     "                self.post_msg(neighbor, SynchronizationMsg())\n\n        self._cycle_messages = self._next_cycle_messages\n        self._next_cycle_messages.clear()\n\n    @property", "break", "R-HANDOVER"),
    ("start_no_handover", _F, "                self.post_msg(neighbor, SynchronizationMsg())\n\n        self._cycle_messages = self._next_cycle_messages\n        self._next_cycle_messages = {}\n\n    def _switch_cycle",
     "                self.post_msg(neighbor, SynchronizationMsg())\n\n    def _switch_cycle", "break", "R-HANDOVER"),
    ("start_sync_before_on_start", _F, "        super(SynchronousComputationMixin, self).start()\n\n        # Startup", "        # Startup", "break", "R-START"),
    ("sync_skips_served_test", _F, "            if neighbor not in self.cycle_message_sent:\n                self.logger.debug(\n                    f\"After cycle {self.current_cycle - 1}, sync msg to {neighbor}\")\n\n                self.post_msg(neighbor, SynchronizationMsg())",
     "            self.post_msg(neighbor, SynchronizationMsg())", "break", "R-SWITCH"),
    ("dsatuto_bypass", "pydcop/algorithms/dsatuto.py", "        self.post_to_all_neighbors(DsaMessage(self.current_value))\n\n    @register", "        for n in self.neighbors:\n            super().post_msg(n, DsaMessage(self.current_value))\n\n    @register", "break", "R-CONFORM"),
    # neutral edits
    ("n_rename_remaining*", _F, "remaining_neighbors", "todo", "neutral"),
    ("n_copy_slice", _F, "        remaining_neighbors = list(self.neighbors)\n", "        remaining_neighbors = self.neighbors[:]\n", "neutral"),
    ("n_guard_clause", _F, "        elif msg.cycle_id == self._current_cycle + 1:\n            self._next_cycle_messages[sender] = (msg, t)\n        else:\n            raise ComputationException(\n                f\"Invalid message for computation {self.name}, \"\n                f\"current cycle is {self._current_cycle} \"\n                f\"but received message for cycle {msg.cycle_id} \"\n                f\"from {sender}\"\n            )\n",
     "        elif msg.cycle_id != self._current_cycle + 1:\n            raise ComputationException('invalid cycle')\n        else:\n            self._next_cycle_messages[sender] = (msg, t)\n", "neutral"),
]
