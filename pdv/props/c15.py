"""C15 - everything sent between agents survives the wire and process spawn.

Decided: the *field contract* of the wire format (R-REPR a-d), constructor
arity of every message construction site (R-PROTO.c), HTTP header writer/reader
agreement, dispatch completeness of simple_repr/from_repr.
"""
import ast

from ..model import walk_no_nested, is_self_attr, norm, call_name, ClassInfo, FuncInfo
from ..report import Ctx, AnalysisError
from .. import reprrules as R

COMM = "pydcop.infrastructure.communication"
COMP = "pydcop.infrastructure.computations"
SR = "pydcop.utils.simple_repr"


def check(ctx: Ctx):
    repo = ctx.repo
    ctx.decided = ("R-REPR: (a) every constructor parameter of every SimpleRepr class with the generic encoder has a "
                   "reconstructible `_param` field derived from that parameter and the generic decoder only receives "
                   "constructor parameters; (b) custom _simple_repr/_from_repr pairs write and read the same keys in the "
                   "same constructor roles; (c) AgentDef.__getstate__/__setstate__ cover every field set by __init__ in "
                   "the same order; (d) no state that the encoder cannot see is attached to wire objects from outside; "
                   "R-PROTO.c: every message construction site binds the declared fields; HTTP header keys written = keys "
                   "read and keep their roles; simple_repr/from_repr dispatch covers all simple types.")
    ctx.undecided = ("deep equality of decoded values (JSON number / string key coercions, tuple vs list), "
                     "content of relation tables, real socket behaviour.")
    ctx.rule("R-REPR.a", "generic encoder: each positional constructor parameter p has a field _p (or a _repr_mapping entry) that is derived from p")
    ctx.rule("R-REPR.a2", "generic decoder: every key the encoder writes is a constructor parameter")
    ctx.rule("R-REPR.b", "custom encoder/decoder pair: keys read are written, nothing written is ignored, each key returns to the constructor role it was taken from")
    ctx.rule("R-REPR.pair", "a mapping encoded as two parallel lists lists its keys and its values in the same order")
    ctx.rule("R-REPR.c", "__getstate__/__setstate__ list the same fields in the same order and cover every field assigned in __init__")
    ctx.rule("R-REPR.d", "no attribute / link is attached to a wire object from outside its class (it would not be encoded)")
    ctx.rule("R-REPR.dispatch", "simple_repr / from_repr handle every simple type (str, Number, bool, list, tuple, set, dict, None, SimpleRepr objects, namedtuples, message_type instances)")
    ctx.rule("R-PROTO.c", "every construction of a message class binds its declared fields (positional arity or keywords)")
    ctx.rule("R-WIRE.http", "HTTP transport: header keys written by send_msg are the keys read by do_POST and keep their roles; type round-trips str()/int()")
    R.check_zipped_pairs(ctx, "R-REPR.pair", [c for m in repo.modules.values() for c in m.classes.values()], min_pairs=2)

    classes = R.simple_repr_classes(repo)
    n_generic = 0
    for ci in classes:
        ctx.touch(ci)
        init = R.init_of(repo, ci)
        if init is None:
            continue
        params = R.positional_params(init)
        w = R.repr_method(repo, ci, "_simple_repr")
        rd = R.repr_method(repo, ci, "_from_repr")
        fields = R.stored_fields(repo, ci)
        mapping = _repr_mapping(repo, ci)
        generic_writer = w is None or R.calls_super_repr(w, "_simple_repr")
        written_extra, removed = set(), set()
        if w is not None:
            wk, removed, _ = R.dict_var_keys_written(w)
            written_extra = wk
        if generic_writer:
            n_generic += 1
            for p in params:
                if p in removed:
                    continue
                fld = mapping.get(p, "_" + p)
                has = fld in fields
                ctx.check(has, "R-REPR.a", f"{ci.fq}({p})", init, init.node,
                          f"constructor parameter '{p}' of {ci.name} has no field '{fld}': the generic encoder raises / drops it")
                if has and p not in mapping:
                    srcs = R.field_params(repo, ci, fld)
                    # decided only when the field is filled from constructor parameters at all
                    if srcs:
                        ctx.check(p in srcs, "R-REPR.a", f"{ci.fq}.{fld} <- {p}", init, _first_assign(fields[fld]),
                                  f"field '{fld}' is filled from parameter(s) {sorted(srcs)}, never from '{p}': decoding loses / swaps the value")
            # generic decoder only gets ctor params
            if rd is None:
                allowed = set(init.params[1:]) | set(init.kwonly)
                extra = {k for k in written_extra if k not in allowed and k not in removed}
                if init.has_varkw:
                    extra = set()
                ctx.check(not extra, "R-REPR.a2", ci.fq, w or init, (w or init).node,
                          f"{ci.name}._simple_repr writes key(s) {sorted(extra)} that the generic decoder passes to the constructor, which has no such parameter")
                # a popped key must not be a *required* parameter
                nreq = len(params) - len(init.node.args.defaults)
                for k in removed:
                    if k in params[:nreq]:
                        ctx.bad("R-REPR.a2", f"{ci.fq} pops required '{k}'", w, w.node, f"encoder removes required constructor parameter '{k}'")
        # custom pairs
        if w is not None and (not generic_writer or rd is not None):
            _check_pair(ctx, repo, ci, init, w, rd, generic_writer)
    ctx.floor("R-REPR.a", 60)

    # ---- (c) AgentDef pickling -------------------------------------------
    _check_pickle(ctx, repo, repo.cls("pydcop.dcop.objects", "AgentDef"))

    # ---- (d) external mutation --------------------------------------------
    _check_external_mutation(ctx, repo)

    # ---- R-PROTO.c constructor arity ----------------------------------------
    _check_message_ctor_calls(ctx, repo)

    # ---- HTTP -------------------------------------------------------------
    _check_http(ctx, repo)

    # ---- dispatch ------------------------------------------------------------
    _check_dispatch(ctx, repo)


# ---------------------------------------------------------------------------
def _repr_mapping(repo, ci):
    for k in repo.mro(ci):
        v = k.class_attrs.get("_repr_mapping")
        if isinstance(v, ast.Dict):
            return {kk.value: vv.value for kk, vv in zip(v.keys, v.values)
                    if isinstance(kk, ast.Constant) and isinstance(vv, ast.Constant)}
    return {}


def _first_assign(lst):
    for m, n in lst:
        if m is not None and m.name == "__init__":
            return n
    return lst[0][1]


def _check_pair(ctx, repo, ci, init, w, rd, generic_writer):
    inst = ci.fq
    wk, removed, _ = R.dict_var_keys_written(w)
    params = init.params[1:]
    if rd is None:
        if not generic_writer:
            ctx.bad("R-REPR.b", inst, w, w.node, f"{ci.name} has a custom encoder but the generic decoder")
        return
    ctx.touch(rd)
    rname = rd.params[1] if len(rd.params) > 1 else "r"
    rk, generic_rest = R.keys_read(rd, rname)
    allowed = set(params) | set(init.kwonly)
    if generic_writer:
        wk_all = wk | {p for p in params if p not in removed}
    else:
        wk_all = wk
    ctx.check(rk <= wk_all, "R-REPR.b", f"{inst}: keys read are written", rd, rd.node,
              f"decoder reads key(s) {sorted(rk - wk_all)} that the encoder never writes")
    ignored = wk_all - rk
    if generic_rest:
        bad = {k for k in ignored if k not in allowed}
        ctx.check(not bad, "R-REPR.b", f"{inst}: remaining keys are constructor parameters", rd, rd.node,
                  f"key(s) {sorted(bad)} written by the encoder reach the constructor through **args but are not parameters")
    else:
        ctx.check(not ignored, "R-REPR.b", f"{inst}: every written key is read", w, w.node,
                  f"encoder writes key(s) {sorted(ignored)} that the decoder ignores: that state is lost")
    # role agreement for the literal form  key: simple_repr(self.X)
    ctor_calls = [c for c in walk_no_nested(rd.node) if isinstance(c, ast.Call)
                  and ((isinstance(c.func, ast.Name) and c.func.id in (ci.name, "cls")))]
    if not ctor_calls:
        ctx.bad("R-REPR.b", f"{inst}: decoder builds an instance", rd, rd.node, "decoder does not call the constructor")
        return
    # every return path of the decoder binds the same constructor parameters (a path that leaves one to its default
    # decodes a different object from the one that was encoded)
    if len(ctor_calls) > 1:
        def bound(c):
            b = set(params[:len(c.args)]) | {k.arg for k in c.keywords if k.arg}
            if any(k.arg is None for k in c.keywords) or any(isinstance(a, ast.Starred) for a in c.args):
                b.add("*")
            return b
        sets = [bound(c) for c in ctor_calls]
        full = set.union(*sets)
        for c, b in zip(ctor_calls, sets):
            ctx.check(b == full or "*" in b, "R-REPR.b", f"{inst}: every decoding path passes the same constructor parameters", rd, c,
                      f"this path leaves {sorted(full - b)} to the constructor default while another path decodes it: the value encoded by the sender is lost on this path")
    roles = _writer_roles(repo, ci, w)
    for key, param in roles.items():
        for c in ctor_calls:
            pos = None
            for j, a in enumerate(c.args):
                if any(isinstance(s, ast.Subscript) and isinstance(s.value, ast.Name) and s.value.id == rname
                       and isinstance(s.slice, ast.Constant) and s.slice.value == key for s in ast.walk(a)):
                    pos = params[j] if j < len(params) else None
            for k in c.keywords:
                if any(isinstance(s, ast.Subscript) and isinstance(s.slice, ast.Constant) and s.slice.value == key for s in ast.walk(k.value)):
                    pos = k.arg
            if pos is None:
                # value may flow through a local first; resolve one level
                pos = _via_local(rd, rname, key, c, params)
            if pos is None:
                continue
            ctx.check(pos == param, "R-REPR.b", f"{inst}: key '{key}' -> parameter '{param}'", rd, c,
                      f"key '{key}' was taken from constructor parameter '{param}' but is decoded into '{pos}'")
    # every key decoded into a local must be used afterwards (else that state is dropped)
    for n in walk_no_nested(rd.node):
        if isinstance(n, ast.Assign) and len(n.targets) == 1 and isinstance(n.targets[0], ast.Name):
            ks = [s.slice.value for s in ast.walk(n.value) if isinstance(s, ast.Subscript) and isinstance(s.value, ast.Name)
                  and s.value.id == rname and isinstance(s.slice, ast.Constant)]
            if not ks:
                continue
            nm = n.targets[0].id
            used = any(isinstance(x, ast.Name) and x.id == nm and isinstance(x.ctx, ast.Load) for x in walk_no_nested(rd.node))
            ctx.check(used, "R-REPR.b", f"{inst}: decoded key '{ks[0]}' is used", rd, n,
                      f"key '{ks[0]}' is read into '{nm}' but never reaches the rebuilt object")
    # dict-as-two-lists idiom: keys, values = zip(*d.items()) ... dict(zip(keys, values))
    _check_zip_idiom(ctx, repo, ci, w, rd, rname)


def _writer_roles(repo, ci, w):
    """key -> ctor param, for entries `key: simple_repr(self.X)` / `key: self.X`."""
    out = {}
    pairs = []
    for n in walk_no_nested(w.node):
        if isinstance(n, ast.Dict):
            for k, v in zip(n.keys, n.values):
                if isinstance(k, ast.Constant):
                    pairs.append((k.value, v))
        if isinstance(n, ast.Assign):
            for t in n.targets:
                if isinstance(t, ast.Subscript) and isinstance(t.slice, ast.Constant) and isinstance(t.value, ast.Name):
                    pairs.append((t.slice.value, n.value))
    for key, v in pairs:
        if key in R.META_KEYS:
            continue
        e = v
        if isinstance(e, ast.Call) and call_name(e) == "simple_repr" and e.args:
            e = e.args[0]
        if is_self_attr(e):
            fld = R.property_field(repo, ci, e.attr)
            if fld:
                p = R.field_param(repo, ci, fld)
                if p:
                    out[key] = p
    return out


def _via_local(rd, rname, key, call, params):
    loc = {}
    for n in walk_no_nested(rd.node):
        if isinstance(n, ast.Assign) and len(n.targets) == 1 and isinstance(n.targets[0], ast.Name):
            if any(isinstance(s, ast.Subscript) and isinstance(s.value, ast.Name) and s.value.id == rname
                   and isinstance(s.slice, ast.Constant) and s.slice.value == key for s in ast.walk(n.value)):
                loc[n.targets[0].id] = True
    for j, a in enumerate(call.args):
        if any(isinstance(x, ast.Name) and x.id in loc for x in ast.walk(a)):
            return params[j] if j < len(params) else None
    for k in call.keywords:
        if any(isinstance(x, ast.Name) and x.id in loc for x in ast.walk(k.value)):
            return k.arg
    return None


def _check_zip_idiom(ctx, repo, ci, w, rd, rname):
    """encoder: a, b = zip(*X.items()); r[k1] = a; r[k2] = b
       decoder: dict(zip(<from r[k1]>, <from r[k2]>))  (keys first)."""
    unp = None
    for n in walk_no_nested(w.node):
        if isinstance(n, ast.Assign) and isinstance(n.targets[0], ast.Tuple) and len(n.targets[0].elts) == 2 \
                and isinstance(n.value, ast.Call) and call_name(n.value) == "zip" and n.value.args \
                and isinstance(n.value.args[0], ast.Starred) and isinstance(n.value.args[0].value, ast.Call) \
                and call_name(n.value.args[0].value) == "items":
            unp = [e.id for e in n.targets[0].elts if isinstance(e, ast.Name)]
    if not unp or len(unp) != 2:
        return
    key_of = {}
    for n in walk_no_nested(w.node):
        if isinstance(n, ast.Assign) and isinstance(n.targets[0], ast.Subscript) and isinstance(n.targets[0].slice, ast.Constant) \
                and isinstance(n.value, ast.Name) and n.value.id in unp:
            key_of[n.value.id] = n.targets[0].slice.value
    if len(key_of) != 2:
        ctx.bad("R-REPR.b", f"{ci.fq}: keys/values lists", w, w.node, "encoder must store both the key list and the value list")
        return
    kkey, vkey = key_of[unp[0]], key_of[unp[1]]
    # decoder: locals bound from r[kkey] / r[vkey]
    src = {}
    for n in walk_no_nested(rd.node):
        if isinstance(n, ast.Assign) and len(n.targets) == 1 and isinstance(n.targets[0], ast.Name):
            for s in ast.walk(n.value):
                if isinstance(s, ast.Subscript) and isinstance(s.value, ast.Name) and s.value.id == rname and isinstance(s.slice, ast.Constant):
                    src[n.targets[0].id] = s.slice.value
    found = False
    for c in walk_no_nested(rd.node):
        if isinstance(c, ast.Call) and call_name(c) == "dict" and c.args and isinstance(c.args[0], ast.Call) and call_name(c.args[0]) == "zip" \
                and len(c.args[0].args) == 2:
            a, b = c.args[0].args

            def origin(e):
                for s in ast.walk(e):
                    if isinstance(s, ast.Subscript) and isinstance(s.value, ast.Name) and s.value.id == rname and isinstance(s.slice, ast.Constant):
                        return s.slice.value
                    if isinstance(s, ast.Name) and s.id in src:
                        return src[s.id]
                return None
            found = True
            ctx.check(origin(a) == kkey and origin(b) == vkey, "R-REPR.b", f"{ci.fq}: dict(zip(keys, values))", rd, c,
                      f"encoder stores dict keys under '{kkey}' and values under '{vkey}'; decoder must zip them back in that order")
    if not found:
        ctx.bad("R-REPR.b", f"{ci.fq}: dict(zip(keys, values))", rd, rd.node, "decoder no longer rebuilds the dict from the two lists")


def _check_pickle(ctx, repo, ci):
    gs = ci.methods.get("__getstate__")
    ss = ci.methods.get("__setstate__")
    init = ci.methods.get("__init__")
    if not (gs and ss and init):
        has_getattr = "__getattr__" in ci.methods
        ctx.check(not has_getattr, "R-REPR.c", ci.fq, ci, ci.node,
                  "a class with __getattr__ needs explicit __getstate__/__setstate__ to be picklable")
        return
    for f in (gs, ss, init):
        ctx.touch(f)
    ret = [r for r in walk_no_nested(gs.node) if isinstance(r, ast.Return)]
    if len(ret) != 1 or not isinstance(ret[0].value, ast.Tuple):
        ctx.bad("R-REPR.c", f"{ci.fq}.__getstate__", gs, gs.node, "__getstate__ must return a tuple of the fields")
        return
    out_fields = []
    for e in ret[0].value.elts:
        f = R.property_field(repo, ci, e.attr) if is_self_attr(e) else None
        out_fields.append(f)
    sp = ss.params[1] if len(ss.params) > 1 else None
    unp = [n for n in walk_no_nested(ss.node) if isinstance(n, ast.Assign) and isinstance(n.value, ast.Name) and n.value.id == sp
           and isinstance(n.targets[0], ast.Tuple)]
    ss_node = ss.node
    if len(unp) != 1:
        # index form: the state is read as state[0], state[1], ... (every position, nothing else)
        import copy as _copy
        subs = [n for n in ast.walk(ss.node) if isinstance(n, ast.Subscript) and isinstance(n.value, ast.Name) and n.value.id == sp and isinstance(n.slice, ast.Constant) and isinstance(n.slice.value, int)]
        idx = sorted({n.slice.value for n in subs})
        loads = [n for n in ast.walk(ss.node) if isinstance(n, ast.Name) and n.id == sp]
        if not unp and idx and idx == list(range(len(idx))) and len(loads) == len(subs):
            class _Ix(ast.NodeTransformer):
                def visit_Subscript(self, node):
                    if isinstance(node.value, ast.Name) and node.value.id == sp and isinstance(node.slice, ast.Constant):
                        return ast.copy_location(ast.Name(id=f"__s{node.slice.value}", ctx=ast.Load()), node)
                    return self.generic_visit(node)
            ss_node = _Ix().visit(_copy.deepcopy(ss.node))
            elts = [ast.Name(id=f"__s{i}", ctx=ast.Store()) for i in idx]
            unp = [ss.node]
        else:
            ctx.bad("R-REPR.c", f"{ci.fq}.__setstate__", ss, ss.node, "__setstate__ must unpack the state tuple into the fields")
            return
    else:
        elts = unp[0].targets[0].elts
    if all(is_self_attr(e) for e in elts):
        in_fields = [e.attr for e in elts]
    else:
        # unpacked into locals, then stored field by field
        locs = [e.id if isinstance(e, ast.Name) else None for e in elts]
        in_fields = [None] * len(locs)
        FALSY = {"{}", "[]", "0", "''", "None", "False", "dict()", "list()", "0.0", "()"}
        for n in walk_no_nested(ss_node):
            if isinstance(n, ast.Assign) and len(n.targets) == 1 and is_self_attr(n.targets[0]):
                v = n.value
                src = None
                if isinstance(v, ast.Name) and v.id in locs:
                    src = v.id
                elif isinstance(v, ast.BoolOp) and isinstance(v.op, ast.Or) and isinstance(v.values[0], ast.Name) and v.values[0].id in locs:
                    src = v.values[0].id
                    dflt = norm(v.values[-1])
                    ctx.check(dflt in FALSY, "R-REPR.c", f"{ci.fq}.__setstate__: {n.targets[0].attr} restored as pickled", ss, n,
                              f"`{norm(v)}` replaces a legitimate falsy value (0) by {dflt}: the restored object differs from the pickled one")
                elif isinstance(v, ast.IfExp) and any(isinstance(x, ast.Name) and x.id in locs for x in ast.walk(v)):
                    src = next(x.id for x in ast.walk(v) if isinstance(x, ast.Name) and x.id in locs)
                    okv = norm(v.test) in (f"{src} is not None", f"{src} is None")
                    ctx.check(okv, "R-REPR.c", f"{ci.fq}.__setstate__: {n.targets[0].attr} restored as pickled", ss, n,
                              f"`{norm(v)}` may replace a legitimate value of the pickled state")
                if src is not None:
                    in_fields[locs.index(src)] = n.targets[0].attr
    ctx.check(out_fields == in_fields and None not in out_fields, "R-REPR.c", f"{ci.fq}: same fields, same order", ss, unp[0],
              f"__getstate__ yields {out_fields} but __setstate__ restores {in_fields}")
    init_fields = []
    for n in walk_no_nested(init.node):
        if isinstance(n, ast.Assign):
            for t in n.targets:
                if is_self_attr(t) and t.attr not in init_fields:
                    init_fields.append(t.attr)
    for f in init_fields:
        ctx.check(f in out_fields, "R-REPR.c", f"{ci.fq}: field {f} pickled", gs, ret[0],
                  f"field '{f}' set by __init__ is not part of the pickled state: it is missing after process spawn")


def _check_external_mutation(ctx, repo):
    """(d): attribute stores on message objects outside their class, and link
    lists of graph nodes extended from outside the node class."""
    n_sites = 0
    msg_names = ("msg", "message", "m", "recv_msg")
    mods = [m for n, m in repo.modules.items() if n == COMP or n.startswith("pydcop.algorithms")
            or n.startswith("pydcop.infrastructure")]
    for m in mods:
        for f in repo.all_functions(m):
            for n in walk_no_nested(f.node):
                if isinstance(n, (ast.Assign, ast.AugAssign)):
                    tgts = n.targets if isinstance(n, ast.Assign) else [n.target]
                    for t in tgts:
                        if isinstance(t, ast.Attribute) and isinstance(t.value, ast.Name) and t.value.id in msg_names \
                                and t.value.id in f.params:
                            n_sites += 1
                            ctx.bad("R-REPR.d", f"{t.value.id}.{t.attr} set in {f.qualname}", f, n,
                                    f"'{t.attr}' is attached to a message after construction: the wire encoder only sees constructor fields, "
                                    f"so it is lost when the message crosses agents")
    for mname, m in repo.modules.items():
        if not mname.startswith("pydcop.computations_graph"):
            continue
        for f in repo.all_functions(m):
            for c in walk_no_nested(f.node):
                if isinstance(c, ast.Call) and isinstance(c.func, ast.Attribute) and c.func.attr in ("append", "extend", "add", "insert") \
                        and isinstance(c.func.value, ast.Attribute) and c.func.value.attr in ("links", "_links", "neighbors", "_neighbors") \
                        and not is_self_attr(c.func.value):
                    # allowed when the owner's class encodes its links explicitly
                    owner_ok = _node_class_encodes_links(repo, m)
                    n_sites += 1
                    ctx.check(owner_ok, "R-REPR.d", f"{norm(c.func)} in {f.qualname}", f, c,
                              "links appended to a node after construction are not rebuilt by its decoder (constructor does not take them)")
    # SynchronizationMsg: attribute not derived from a ctor param
    sm = repo.cls(COMP, "SynchronizationMsg")
    init = sm.methods.get("__init__")
    if init:
        for n in walk_no_nested(init.node):
            if isinstance(n, ast.Assign):
                for t in n.targets:
                    if is_self_attr(t) and not t.attr.startswith("_"):
                        n_sites += 1
                        ctx.bad("R-REPR.d", f"SynchronizationMsg.{t.attr}", init, n,
                                f"'{t.attr}' is state of a wire message that is not a constructor field: it is not encoded")
    if n_sites == 0:
        ctx.ok("R-REPR.d", "no external mutation", repo.module(COMP), None)


def _node_class_encodes_links(repo, m):
    """ordered graph: the node class must carry the order links through its
    own encoder/decoder."""
    ci = m.classes.get("VariableComputationNode")
    if ci is None:
        return False
    w = ci.methods.get("_simple_repr")
    rd = ci.methods.get("_from_repr")
    if not (w and rd):
        return False
    wk, _, _ = R.dict_var_keys_written(w)
    rk, _ = R.keys_read(rd, rd.params[1] if len(rd.params) > 1 else "r")
    link_keys = {k for k in wk if "link" in k}
    return bool(link_keys) and link_keys <= rk and any(
        isinstance(c, ast.Call) and isinstance(c.func, ast.Attribute) and c.func.attr in ("append", "extend")
        for c in walk_no_nested(rd.node))


def _check_message_ctor_calls(ctx, repo):
    mt = repo.message_types()
    n = 0
    # explicit Message subclasses
    msg_classes = {c.fq: c for c in repo.subclasses_of(COMP, "Message")}
    for mname, m in repo.modules.items():
        for f in list(repo.all_functions(m)):
            for c in ast.walk(f.node):
                if not isinstance(c, ast.Call):
                    continue
                target = None
                if isinstance(c.func, ast.Name):
                    nm = c.func.id
                    # message_type variable in this module or imported
                    key = None
                    if (mname, nm) in mt:
                        key = (mname, nm)
                    else:
                        imp = m.imports.get(nm)
                        if imp and ":" in imp:
                            mod, orig = imp.split(":", 1)
                            if (mod, orig) in mt:
                                key = (mod, orig)
                    if key:
                        typ, fields, _ = mt[key]
                        n += 1
                        if any(isinstance(a, ast.Starred) for a in c.args) or any(k.arg is None for k in c.keywords):
                            ctx.ok("R-PROTO.c", f"{nm}(*dynamic) in {f.fq}", f, c, sample=False)
                            continue
                        if c.args and c.keywords:
                            ctx.bad("R-PROTO.c", f"{nm}(..) in {f.qualname}", f, c, "message_type classes take positional OR keyword arguments")
                        elif c.args:
                            ctx.check(len(c.args) == len(fields), "R-PROTO.c", f"{nm}(..) in {f.qualname}", f, c,
                                      f"{nm} declares fields {fields} but is built with {len(c.args)} positional argument(s)")
                        else:
                            kws = {k.arg for k in c.keywords}
                            ctx.check(kws == set(fields), "R-PROTO.c", f"{nm}(..) in {f.qualname}", f, c,
                                      f"{nm} declares fields {fields} but is built with keywords {sorted(kws)}: "
                                      f"missing fields do not exist on the instance and encoding it raises")
                        continue
                    r = repo.resolve_name(m, nm)
                    if isinstance(r, ClassInfo) and r.fq in msg_classes:
                        target = r
                if target is None:
                    continue
                init = repo.lookup_method(target, "__init__")
                if init is None:
                    continue
                params = init.params[1:]
                nreq = len(params) - len(init.node.args.defaults)
                why = R.bind_call(c, params, nreq, init.has_vararg, init.has_varkw, init.kwonly)
                n += 1
                ctx.check(why is None, "R-PROTO.c", f"{target.name}(..) in {f.qualname}", f, c, f"constructor call does not bind: {why}")
    ctx.floor("R-PROTO.c", 60)


def _check_http(ctx, repo):
    snd = repo.func(COMM, "HttpCommunicationLayer.send_msg")
    rcv = repo.func(COMM, "MPCHttpHandler.do_POST")
    ctx.touch(snd)
    ctx.touch(rcv)
    posts = [c for c in walk_no_nested(snd.node) if isinstance(c, ast.Call) and norm(c.func) == "requests.post"]
    if len(posts) != 1:
        raise AnalysisError("HttpCommunicationLayer.send_msg: requests.post call not found")
    kw = {k.arg: k.value for k in posts[0].keywords}
    hd = kw.get("headers")
    if not isinstance(hd, ast.Dict):
        raise AnalysisError("send_msg: headers dict literal not found")
    written = {k.value: norm(v) for k, v in zip(hd.keys, hd.values) if isinstance(k, ast.Constant)}
    mp = snd.params[3]
    read = {}
    for n in walk_no_nested(rcv.node):
        if isinstance(n, ast.Assign) and isinstance(n.value, ast.Subscript) and norm(n.value.value) == "self.headers" \
                and isinstance(n.value.slice, ast.Constant) and isinstance(n.targets[0], ast.Name):
            read[n.value.slice.value] = n.targets[0].id
        elif isinstance(n, ast.Assign) and isinstance(n.value, ast.Call) and norm(n.value.func) == "self.headers.get" and n.value.args and isinstance(n.value.args[0], ast.Constant) \
                and isinstance(n.targets[0], ast.Name):
            read[n.value.args[0].value] = n.targets[0].id    # headers.get(name, default): same lookup (email.message.Message)
    rk = set(read)
    ctx.check(rk <= set(written), "R-WIRE.http", "header keys read are written", rcv, rcv.node,
              f"do_POST reads header(s) {sorted(rk - set(written))} that send_msg never sets")
    want = {"sender-comp": f"{mp}.src_comp", "dest-comp": f"{mp}.dest_comp", "type": f"str({mp}.msg_type)",
            "sender-agent": snd.params[1], "dest-agent": snd.params[2]}
    for k, v in want.items():
        ctx.check(written.get(k) == v, "R-WIRE.http", f"header {k}", snd, hd, f"header '{k}' must carry {v}, found {written.get(k)}")
    body = kw.get("json")
    bsrc = norm(body) if body is not None else None
    if isinstance(body, ast.Name):
        for n in walk_no_nested(snd.node):
            if isinstance(n, ast.Assign) and isinstance(n.targets[0], ast.Name) and n.targets[0].id == body.id:
                bsrc = norm(n.value)
    ctx.check(bsrc == f"simple_repr({mp}.msg)", "R-WIRE.http", "body = simple_repr(message)", snd, posts[0],
              f"the request body must be the wire encoding of the algorithm message, found {bsrc}")
    cms = [c for c in walk_no_nested(rcv.node) if isinstance(c, ast.Call) and call_name(c) == "ComputationMessage"]
    okc = False
    if len(cms) == 1 and len(cms[0].args) == 4:
        a = [norm(x) for x in cms[0].args]
        okc = (a[0] == read.get("sender-comp") and a[1] == read.get("dest-comp") and a[2].startswith("from_repr(")
               and a[3] == f"int({read.get('type')})")
    ctx.check(okc, "R-WIRE.http", "do_POST rebuilds (src comp, dest comp, decoded message, int(type))", rcv,
              cms[0] if cms else rcv.node, "the received message must be rebuilt from the headers in their roles and the decoded body")
    ops = [c for c in walk_no_nested(rcv.node) if isinstance(c, ast.Call) and call_name(c) == "on_post_message"]
    oko = len(ops) == 1 and len(ops[0].args) == 4 and [norm(x) for x in ops[0].args[1:3]] == [read.get("sender-agent"), read.get("dest-agent")]
    ctx.check(oko, "R-WIRE.http", "on_post_message(path, sender agent, dest agent, message)", rcv, ops[0] if ops else rcv.node,
              "agent-level roles must be preserved when handing the message to the communication layer")


def _check_dispatch(ctx, repo):
    sr = repo.func(SR, "simple_repr")
    fr = repo.func(SR, "from_repr")
    ctx.touch(sr)
    ctx.touch(fr)
    # decoding is a function of the repr alone: no module-level mutable state (memo of generated classes, registry) is consulted or filled
    from ..aliasrules import _is_mutable_ctor
    m_sr = repo.module(SR)
    glob = {}
    for st in m_sr.tree.body:
        if isinstance(st, ast.Assign) and len(st.targets) == 1 and isinstance(st.targets[0], ast.Name) and _is_mutable_ctor(st.value):
            glob[st.targets[0].id] = st
        elif isinstance(st, ast.AnnAssign) and isinstance(st.target, ast.Name) and st.value is not None and _is_mutable_ctor(st.value):
            glob[st.target.id] = st
    for fn in (sr, fr):
        used = [n for n in ast.walk(fn.node) if isinstance(n, ast.Name) and n.id in glob]
        ctx.check(not used, "R-REPR.dispatch", f"{fn.name} keeps no state between calls", fn, used[0] if used else fn.node,
                  f"`{used[0].id if used else ''}` is a module-level container: a class generated for one message (e.g. message_type('stop', [])) and remembered under its type name is "
                  "re-used for another message kind of the same name with other fields (NCBB's 'stop' carries a field), which is then rejected or mis-built")
    memo = [d for fn in (sr, fr) for d in fn.node.decorator_list if "cache" in norm(d)]
    ctx.check(not memo, "R-REPR.dispatch", "simple_repr / from_repr are not memoised", fr, memo[0] if memo else fr.node, "reprs contain dicts / generated classes: results must not be shared between calls")

    def isinstance_types(fn, var):
        out = set()
        for c in walk_no_nested(fn.node):
            if isinstance(c, ast.Call) and call_name(c) == "isinstance" and len(c.args) == 2 and norm(c.args[0]) == var:
                t = c.args[1]
                for e in (t.elts if isinstance(t, ast.Tuple) else [t]):
                    out.add(norm(e))
        return out
    o = sr.params[0]
    ts = isinstance_types(sr, o)
    for t in ("str", "Number", "list", "tuple", "set", "dict"):
        ctx.check(t in ts, "R-REPR.dispatch", f"simple_repr handles {t}", sr, sr.node, f"simple_repr has no branch for {t}")
    txt = norm(sr.node)
    ctx.check(f"hasattr({o}, '_simple_repr')" in txt and f"{o}._simple_repr()" in txt, "R-REPR.dispatch", "simple_repr delegates to _simple_repr", sr, sr.node,
              "objects providing _simple_repr must be encoded by it")
    ctx.check(f"{o} is None" in txt, "R-REPR.dispatch", "simple_repr handles None", sr, sr.node, "None must be encodable")
    ctx.check(f"hasattr({o}, '_asdict')" in txt, "R-REPR.dispatch", "simple_repr handles namedtuple", sr, sr.node, "namedtuples must be encodable")
    raises = [r for r in walk_no_nested(sr.node) if isinstance(r, ast.Raise)]
    ctx.check(len(raises) >= 1, "R-REPR.dispatch", "simple_repr rejects unknown types", sr, sr.node, "unknown types must raise, not be dropped")
    # every branch returns
    for br in [n for n in walk_no_nested(sr.node) if isinstance(n, ast.If)]:
        pass
    r = fr.params[0]
    tf = isinstance_types(fr, r)
    for t in ("dict", "list", "str", "Number"):
        ctx.check(t in tf, "R-REPR.dispatch", f"from_repr handles {t}", fr, fr.node, f"from_repr has no branch for {t}")
    ftxt = norm(fr.node)
    for frag, what in ((f"'__qualname__' in {r}", "object marker test"), ("importlib.import_module", "module import"),
                       ("._from_repr(", "delegation to _from_repr"), ("'__type__'", "message_type decoding"),
                       ("'_fields'", "namedtuple decoding"), ("== 'tuple'", "tuple decoding")):
        ctx.check(frag in ftxt, "R-REPR.dispatch", f"from_repr: {what}", fr, fr.node, f"from_repr lost its {what}")
    # plain tuples: encoded by position, decoded by *integer* position (JSON turns the keys into strings)
    tb = [n for n in ast.walk(fr.node) if isinstance(n, ast.If) and "== 'tuple'" in norm(n.test)]
    okt = False
    if tb:
        srt = [c for s_ in tb[0].body for c in ast.walk(s_) if isinstance(c, ast.Call) and call_name(c) == "sorted"]
        for c in srt:
            comp = c.args[0] if c.args else None
            key = {k.arg: k.value for k in c.keywords}.get("key")
            if isinstance(comp, (ast.ListComp, ast.GeneratorExp)) and isinstance(comp.elt, ast.Tuple) and comp.elt.elts:
                idx = norm(comp.generators[0].target.elts[0]) if isinstance(comp.generators[0].target, ast.Tuple) else None
                first = norm(comp.elt.elts[0])
                if first == f"int({idx})" and key is None:
                    okt = True
                if key is not None and "int(" in norm(key):
                    okt = True
                if first == f"int({idx})" and key is not None and "[0]" in norm(key):
                    okt = True
    ctx.check(okt, "R-REPR.dispatch", "from_repr: tuple elements ordered by integer index", fr, tb[0] if tb else fr.node,
              "after JSON the positional keys are strings: they must be converted with int() before sorting ('10' < '2' lexicographically)")
    enc = [n for n in ast.walk(sr.node) if isinstance(n, ast.DictComp) and isinstance(n.generators[0].iter, ast.Call) and call_name(n.generators[0].iter) == "enumerate"]
    ctx.check(len(enc) == 1 and norm(enc[0].key) == norm(enc[0].generators[0].target.elts[0]), "R-REPR.dispatch", "simple_repr: tuple elements keyed by position", sr,
              enc[0] if enc else sr.node, "a plain tuple must be encoded as {position: element}")
    # container branches must encode / decode element by element
    from ..facts import FuncFacts, facts_at

    def branch_returns(fn, var, typ):
        ff = FuncFacts(fn.node)
        out = []
        for rt in walk_no_nested(fn.node):
            if isinstance(rt, ast.Return) and rt.value is not None:
                facts = facts_at(ff, rt)
                pos = [norm(t) for t, pl in facts if pl]
                if any(f"isinstance({var}, {typ})" in t for t in pos) and not any("'__qualname__' in" in t for t in pos):
                    out.append(rt)
        return out
    for fn, var, fname in ((sr, o, "simple_repr"), (fr, r, "from_repr")):
        for typ, comp in (("dict", ast.DictComp), ("list", ast.ListComp)):
            rts = branch_returns(fn, var, typ)
            okb = bool(rts) and all(isinstance(x.value, comp) and any(isinstance(c, ast.Call) and call_name(c) == fname for c in ast.walk(x.value))
                                    for x in rts)
            ctx.check(okb, "R-REPR.dispatch", f"{fname}: {typ} branch recurses", fn, rts[0] if rts else fn.node,
                      f"the {typ} branch of {fname} must rebuild the container by applying {fname} to every element")
    # generic mixin: writer iterates ctor args and reads '_' + arg ; reader filters the two meta keys and calls cls(**args)
    gw = repo.func(SR, "SimpleRepr._simple_repr")
    gr = repo.func(SR, "SimpleRepr._from_repr")
    ctx.touch(gw)
    ctx.touch(gr)
    gt = norm(gw.node)
    ctx.check("func_args(self.__init__)" in gt and "getattr(self, '_' + arg)" in gt and "simple_repr(val)" in gt and "'__module__': self.__module__" in gt
              and "'__qualname__': self.__class__.__qualname__" in gt, "R-REPR.dispatch", "generic encoder", gw, gw.node,
              "the generic encoder must emit module, qualname and one encoded `_arg` per constructor argument")
    rt = norm(gr.node)
    ctx.check("cls(**args)" in rt and "from_repr(v)" in rt and "'__qualname__'" in rt and "'__module__'" in rt, "R-REPR.dispatch", "generic decoder", gr, gr.node,
              "the generic decoder must decode every non-meta key and pass it to the constructor")
    # message_type factory
    mtf = repo.func(COMP, "message_type")
    ctx.touch(mtf)
    mt = norm(mtf.node)
    ctx.check("'__qualname__': 'message_type'" in mt and "'__type__': self.__class__.__qualname__" in mt and "for arg in fields" in mt
              and "simple_repr(val)" in mt, "R-REPR.dispatch", "message_type encoder", mtf, mtf.node,
              "message_type instances must encode their type name and every declared field")
    ctx.check("len(args) != len(fields)" in mt and "k not in fields" in mt, "R-REPR.dispatch", "message_type constructor validates fields", mtf, mtf.node,
              "message_type constructors must reject a wrong number of / unknown fields")


_O = "pydcop/dcop/objects.py"
_CP = "pydcop/infrastructure/computations.py"
_CM = "pydcop/infrastructure/communication.py"
_SRF = "pydcop/utils/simple_repr.py"
VARIANTS = [
    ("decoded_message_classes_cached_by_type_name", _SRF, ["def from_repr(r):\n", "                M = qual(r['__type__'], args)\n"], ["_factory_classes = {}\n\n\ndef from_repr(r):\n", "                key = (r['__module__'], r['__qualname__'], r['__type__'])\n                if key not in _factory_classes:\n                    _factory_classes[key] = qual(r['__type__'], args)\n                M = _factory_classes[key]\n"], "break", "R-REPR.dispatch"),
    ("mgm2_offer_keys_sorted_values_not", "pydcop/algorithms/mgm2.py", "                var_values, gains = zip(*self.offers.items())\n                r[\"var_values\"] = var_values\n                r[\"gains\"] = gains\n",
     "                r[\"var_values\"] = sorted(self.offers)\n                r[\"gains\"] = list(self.offers.values())\n", "break", "R-REPR.pair"),
    ("n_mgm2_offer_keys_values_lists", "pydcop/algorithms/mgm2.py", "                var_values, gains = zip(*self.offers.items())\n                r[\"var_values\"] = var_values\n                r[\"gains\"] = gains\n",
     "                r[\"var_values\"] = list(self.offers.keys())\n                r[\"gains\"] = list(self.offers.values())\n", "neutral"),
    ("getstate_drop_routes", _O, "            self._default_route,\n            self._routes,\n        )\n\n    def __setstate__", "            self._default_route,\n        )\n\n    def __setstate__", "break", "R-REPR.c"),
    ("setstate_swapped", _O, "            self._default_route,\n            self._routes,\n        ) = state", "            self._routes,\n            self._default_route,\n        ) = state", "break", "R-REPR.c"),
    ("field_renamed", "pydcop/algorithms/mgm.py", "        self._random_nb = random_nb", "        self._rnd = random_nb", "break", "R-REPR.a"),
    ("fields_swapped", "pydcop/algorithms/mgm2.py", "            self._value = value\n            self._gain = gain\n        else:", "            self._value = gain\n            self._gain = value\n        else:", "break", "R-REPR.a"),
    ("new_param_no_field", "pydcop/algorithms/dsa.py", "    def __init__(self, value):\n        super().__init__(\"dsa_value\", None)\n        self._value = value",
     "    def __init__(self, value, cycle=0):\n        super().__init__(\"dsa_value\", None)\n        self._value = value\n        self.cycle = cycle", "break", "R-REPR.a"),
    ("link_roles_swapped", "pydcop/computations_graph/factor_graph.py", "        return FactorGraphLink(from_repr(r['factor']),\n                               from_repr(r['variable']))",
     "        return FactorGraphLink(from_repr(r['variable']),\n                               from_repr(r['factor']))", "break", "R-REPR.b"),
    ("pt_link_key_renamed", "pydcop/computations_graph/pseudotree.py", "            \"target\": simple_repr(self.target),\n        }\n        return r\n\n    @classmethod\n    def _from_repr(cls, r):\n        return PseudoTreeLink(",
     "            \"dest\": simple_repr(self.target),\n        }\n        return r\n\n    @classmethod\n    def _from_repr(cls, r):\n        return PseudoTreeLink(", "break", "R-REPR.b"),
    ("pt_link_source_twice", "pydcop/computations_graph/pseudotree.py", "return PseudoTreeLink(r[\"type\"], from_repr(r[\"source\"]), from_repr(r[\"target\"]))", "return PseudoTreeLink(r[\"type\"], from_repr(r[\"target\"]), from_repr(r[\"source\"]))", "break", "R-REPR.b"),
    ("maxsum_zip_swapped", "pydcop/algorithms/maxsum.py", "return MaxSumMessage(dict(zip(vals, costs)))", "return MaxSumMessage(dict(zip(costs, vals)))", "break", "R-REPR.b"),
    ("mgm2_offer_empty_loses_flag", "pydcop/algorithms/mgm2.py", "        return Mgm2OfferMessage(dict(), r[\"is_offering\"])", "        return Mgm2OfferMessage()", "break", "R-REPR.b"),
    ("mgm2_offer_drop_gains", "pydcop/algorithms/mgm2.py", "                r[\"var_values\"] = var_values\n                r[\"gains\"] = gains", "                r[\"var_values\"] = var_values", "break", "R-REPR.b"),
    ("algodef_params_not_restored", "pydcop/algorithms/__init__.py", "        algo = cls(**args, params=params)", "        algo = cls(**args)", "break"),
    ("exprfn_fixed_vars_not_written", "pydcop/utils/expressionfunction.py", "        r['fixed_vars'] = simple_repr(self._fixed_vars)\n", "", "break", "R-REPR.b"),
    ("order_links_not_reattached", "pydcop/computations_graph/ordered_graph.py", "        node.links.extend(order_links)\n", "", "break", "R-REPR.d"),
    ("order_links_not_written", "pydcop/computations_graph/ordered_graph.py", "        r[\"order_links\"] = simple_repr(\n            [l for l in self.links if l.type in (\"previous\", \"next\")]\n        )\n", "", "break"),
    ("terminate_fields_back", "pydcop/algorithms/syncbb.py", "SyncBBTerminateMessage = message_type(\"terminate\", [])", "SyncBBTerminateMessage = message_type(\"terminate\", [\"current_path\", \"ub\"])", "break", "R-PROTO.c"),
    ("msg_ctor_extra_arg", "pydcop/algorithms/mgm.py", "MgmGainMessage(self._gain, self.__random__)", "MgmGainMessage(self._gain, self.__random__, self.name)", "break", "R-PROTO.c"),
    ("discovery_msg_missing_field", "pydcop/infrastructure/discovery.py", "PublishReplicaMessage(replica, agent, True))", "PublishReplicaMessage(replica, agent))", "break", "R-PROTO.c"),
    ("stamp_another_attr", "pydcop/algorithms/dsatuto.py", "    def on_start(self):\n", "    def _stamp(self, msg):\n        msg.origin = self.name\n        return msg\n\n    def on_start(self):\n", "break", "R-REPR.d"),
    ("http_header_renamed", _CM, "                    \"dest-comp\": msg.dest_comp,\n", "                    \"dest-computation\": msg.dest_comp,\n", "break", "R-WIRE.http"),
    ("http_header_roles", _CM, "                    \"sender-comp\": msg.src_comp,\n                    \"dest-comp\": msg.dest_comp,\n", "                    \"sender-comp\": msg.dest_comp,\n                    \"dest-comp\": msg.src_comp,\n", "break", "R-WIRE.http"),
    ("http_type_not_int", _CM, "src_comp, dest_comp, from_repr(content), int(type)", "src_comp, dest_comp, from_repr(content), type", "break", "R-WIRE.http"),
    ("http_body_raw", _CM, "        msg_repr = simple_repr(msg.msg)\n", "        msg_repr = simple_repr(msg)\n", "break", "R-WIRE.http"),
    ("tuple_sorted_on_str_key", _SRF, "                values = sorted( [(int(i), v) for i, v in r.items()\n                                  if i not in ['__qualname__', '__module__']] )", "                values = sorted([(i, v) for i, v in r.items()\n                                  if i not in ['__qualname__', '__module__']], key=lambda iv: iv[0])", "break", "R-REPR.dispatch"),
    ("setstate_or_default", _O, "        (\n            self._name,\n            self._hosting_costs,\n            self._default_hosting_cost,\n            self._attr,\n            self._default_route,\n            self._routes,\n        ) = state",
     "        name, hosting_costs, default_hosting_cost, attr, default_route, routes = state\n        self._name = name\n        self._hosting_costs = hosting_costs or {}\n        self._default_hosting_cost = default_hosting_cost or 0\n        self._attr = attr or {}\n        self._default_route = default_route or 1\n        self._routes = routes or {}", "break", "R-REPR.c"),
    ("n_setstate_locals", _O, "        (\n            self._name,\n            self._hosting_costs,\n            self._default_hosting_cost,\n            self._attr,\n            self._default_route,\n            self._routes,\n        ) = state",
     "        name, hosting_costs, default_hosting_cost, attr, default_route, routes = state\n        self._name = name\n        self._hosting_costs = hosting_costs or {}\n        self._default_hosting_cost = default_hosting_cost\n        self._attr = attr\n        self._default_route = default_route\n        self._routes = routes", "neutral"),
    ("from_repr_no_list", _SRF, "    elif isinstance(r, list):\n        return [from_repr(v) for v in r]\n", "", "break", "R-REPR.dispatch"),
    ("simple_repr_no_none", _SRF, "    elif o is None:\n        return None\n", "", "break", "R-REPR.dispatch"),
    ("simple_repr_dict_shallow", _SRF, "        return {k: simple_repr(o[k]) for k in o}", "        return dict(o)", "break", "R-REPR.dispatch"),
    ("generic_decoder_keeps_meta", _SRF, "                if k not in ['__qualname__', '__module__']}\n        return cls(**args)", "                if k not in ['__qualname__']}\n        return cls(**args)", "break", "R-REPR.dispatch"),
    # neutral
    ("n_reorder_getstate", _O, "            self._default_route,\n            self._routes,\n        )\n\n    def __setstate__(self, state):\n        (\n            self._name,\n            self._hosting_costs,\n            self._default_hosting_cost,\n            self._attr,\n            self._default_route,\n            self._routes,\n        ) = state",
     "            self._routes,\n            self._default_route,\n        )\n\n    def __setstate__(self, state):\n        (\n            self._name,\n            self._hosting_costs,\n            self._default_hosting_cost,\n            self._attr,\n            self._routes,\n            self._default_route,\n        ) = state", "neutral"),
    ("n_kw_ctor", "pydcop/algorithms/mgm.py", "MgmGainMessage(self._gain, self.__random__)", "MgmGainMessage(value=self._gain, random_nb=self.__random__)", "neutral"),
    ("n_decoder_keywords", "pydcop/computations_graph/factor_graph.py", "        return FactorGraphLink(from_repr(r['factor']),\n                               from_repr(r['variable']))",
     "        return FactorGraphLink(variable_node=from_repr(r['variable']),\n                               factor_node=from_repr(r['factor']))", "neutral"),
]
