"""C04 - a cycle with no MGM/MGM2 move means the assignment is 1-opt.

Decided: sign convention of gains and its coherence from their definition
(current - best) through the improvement test, the gain messages, the stored
neighbour gains and the arbitration (best neighbour gain and strict comparison
follow the objective), and freshness of the current local cost (re-evaluated
every cycle), and the go decision of a committed MGM2 pair.  A mode-blind arbitration or a stale current cost lets a cycle end
without a move while a unilateral improvement exists.
"""
import ast

from ..model import walk_no_nested, norm, call_name, is_self_attr
from ..facts import FuncFacts, facts_at
from ..report import Ctx, AnalysisError
from .. import moderules as M
from .. import mgmrules as G

MGM, MGM2 = G.MGM, G.MGM2


def check(ctx: Ctx):
    repo = ctx.repo
    ctx.decided = ("gain = current local cost - best local cost in both algorithms; 'can improve' is gain > 0 under min and "
                   "gain < 0 under max, otherwise the candidate is the current value; the gain sent, stored and compared is "
                   "that signed quantity; the best neighbour gain is the max under min / the min under max and the mover "
                   "needs a strict comparison in the same direction (MGM inline, MGM2 through _best_gain/_is_better_gain at "
                   "both arbitration sites); running optima over costs and over gains follow the objective; the current "
                   "local cost is re-evaluated every cycle before gains are computed.")
    ctx.undecided = "1-optimality of the assignment reached in a concrete run; effects of random choices and schedules."
    ctx.rule("R-MODE.d", "signed gains are only compared / maximised in the direction of the objective")
    ctx.rule("R-MODE.b", "running optima follow the objective")
    ctx.rule("R-GAIN", "gain = current local cost - best local cost; improvement test and no-op candidate")
    ctx.rule("R-FRESH", "the current local cost is re-evaluated at every cycle from the neighbours' current values")
    ctx.rule("R-FLOW", "the gain that is sent, stored and arbitrated is the computed gain")
    ctx.rule("R-GO", "an MGM2 pair that announced its coordinated gain goes whenever that gain is strictly best among the other neighbours (or there is none)")

    # =============================== MGM =====================================
    hv = repo.func(MGM, "MgmComputation._handle_value_message")
    hg = repo.func(MGM, "MgmComputation._handle_gain_message")
    sg = repo.func(MGM, "MgmComputation._send_gain")
    cb = repo.func(MGM, "MgmComputation._compute_best_value")
    for f in (hv, hg, sg, cb):
        ctx.touch(f)
    G.check_gain_definition(ctx, hv, "R-GAIN", "self._gain", "_compute_best_value")
    G.check_improvement_test(ctx, hv, "R-GAIN", "self._gain", "self._new_value")
    M.check_mode_args(ctx, [cb], "R-MODE.b", {"find_arg_optimal": (2, "mode")})
    # freshness: value_selection(self.current_value, cost) dominated by the full-neighbourhood test only
    ff = FuncFacts(hv.node)
    refresh = [c for c in walk_no_nested(hv.node) if isinstance(c, ast.Call) and is_self_attr(c.func, "value_selection")
               and c.args and norm(c.args[0]) == "self.current_value"]
    okf = len(refresh) == 1
    if okf:
        fs = G.facts(ff, refresh[0])
        okf = fs == {("len(self._neighbors_values) == len(self._neighbors)", True)}
        gd = [n for n in walk_no_nested(hv.node) if isinstance(n, ast.Assign) and norm(n.targets[0]) == "self._gain"]
        okf = okf and bool(gd) and refresh[0].lineno < gd[0].lineno
    ctx.check(okf, "R-FRESH", "MGM: current cost refreshed every cycle before the gain", hv, refresh[0] if refresh else hv.node,
              "the current local cost must be recomputed whenever all neighbours' values are known (not only at the first cycle): "
              "after a neighbour moved, a stale cost yields a null gain although an improvement exists")
    cl = [n for n in walk_no_nested(hv.node) if isinstance(n, ast.For) and any("reduced_cs.append" in norm(x) for x in n.body)]
    okl = len(cl) == 1 and norm(cl[0].iter) in ("self.utilities", "self.__utilities__") and \
        G.facts(ff, cl[0]) == {("len(self._neighbors_values) == len(self._neighbors)", True)}
    ctx.check(okl, "R-FRESH", "MGM: every constraint is re-costed every cycle", hv, cl[0] if cl else hv.node,
              "the cost loop must range over all the variable's constraints at every cycle")
    # the refreshed cost is evaluated at the current value under the neighbours' current values
    txt = norm(hv.node)
    ctx.check("filter_assignment_dict(self._neighbors_values, c.dimensions)" in txt and "f(self.current_value)" in txt, "R-FRESH",
              "MGM: current cost = constraints sliced on the neighbours' values, at the current value", hv, hv.node,
              "the current cost must be evaluated on the neighbours' current values and the variable's current value")
    # arbitration
    hg_defs = G.local_defs(hg)

    def gains_all(call):
        a = call.args[0] if call.args else None
        if isinstance(a, ast.Name) and len(hg_defs.get(a.id, [])) == 1:
            a = hg_defs[a.id][0].value
        t = norm(a) if a is not None else ""
        if isinstance(a, (ast.ListComp, ast.GeneratorExp)) and a.generators[0].ifs:
            return False
        return "gains.values()" in t or "self._neighbors_gains.values()" in t
    flag, best = G.check_gain_arbitration_inline(ctx, hg, "R-MODE.d", "self._gain", gains_all)
    gd = [n for n in walk_no_nested(hg.node) if isinstance(n, ast.Assign) and norm(n.targets[0]) == "gains"]
    ctx.check((len(gd) == 1 and "self._neighbors_gains.items()" in norm(gd[0].value) and not getattr(gd[0].value, "generators", [None])[0].ifs if gd and isinstance(gd[0].value, ast.DictComp) else False)
              or (len(gd) == 1 and norm(gd[0].value) in ("dict(self._neighbors_gains)", "self._neighbors_gains.copy()", "{**self._neighbors_gains}")),
              "R-FLOW", "MGM: arbitration over all stored neighbour gains", hg, gd[0] if gd else hg.node, "no neighbour gain may be filtered out before the arbitration")
    st = [n for n in walk_no_nested(hg.node) if isinstance(n, ast.Assign) and isinstance(n.targets[0], ast.Subscript) and is_self_attr(n.targets[0].value, "_neighbors_gains")]
    ctx.check(len(st) == 1 and norm(st[0].value) == f"({hg.params[2]}.value, {hg.params[2]}.random_nb)" and norm(st[0].targets[0].slice) == hg.params[1], "R-FLOW",
              "MGM: received gain stored per sender", hg, st[0] if st else hg.node, "each neighbour's (gain, random number) must be stored under its name")
    mk = [c for c in walk_no_nested(sg.node) if isinstance(c, ast.Call) and call_name(c) == "MgmGainMessage"]
    ctx.check(len(mk) == 1 and norm(mk[0].args[0]) == "self._gain", "R-FLOW", "MGM: the gain sent is the computed gain", sg, mk[0] if mk else sg.node,
              "the gain message must carry self._gain")
    if flag and best:
        ffg = FuncFacts(hg.node)
        tie = [c for c in walk_no_nested(hg.node) if isinstance(c, ast.Call) and is_self_attr(c.func, "_break_ties")]
        okt = len(tie) == 1 and (f"self._gain == {best}", True) in G.facts(ffg, tie[0]) and (flag, False) in G.facts(ffg, tie[0]) and norm(tie[0].args[0]) == best
        ctx.check(okt, "R-MODE.d", "MGM: ties go to the tie-break, with the best neighbour gain", hg, tie[0] if tie else hg.node,
                  "an equal best gain must be resolved by _break_ties(<best neighbour gain>)")

    # tie participants: exactly the neighbours whose gain equals the best one, plus the variable itself
    bt = repo.func(MGM, "MgmComputation._break_ties")
    ctx.touch(bt)
    for n in [n for n in ast.walk(bt.node) if isinstance(n, ast.Assign) and norm(n.targets[0]) == "ties"]:
        v = n.value
        okt = isinstance(v, ast.Call) and call_name(v) == "sorted" and isinstance(v.args[0], ast.BinOp) and isinstance(v.args[0].left, ast.ListComp)
        if okt:
            g = v.args[0].left.generators[0]
            okt = norm(g.iter) == "self._neighbors_gains.items()" and len(g.ifs) == 1 and norm(g.ifs[0]) == f"gain == {bt.params[1]}" and "self.name" in norm(v.args[0].right)
        ctx.check(okt, "R-MODE.d", "MGM: the tie-break is played among the tied neighbours and the variable only", bt, n,
                  "if non-tied neighbours take part, two tied variables can both lose and a cycle ends without a move although both could improve")
    # =============================== MGM2 ====================================
    G.check_mode_helpers(ctx, repo, "R-MODE.d")
    hv2 = repo.func(MGM2, "Mgm2Computation._handle_value_messages")
    hg2 = repo.func(MGM2, "Mgm2Computation._handle_gain_messages")
    ho2 = repo.func(MGM2, "Mgm2Computation._handle_offer_messages")
    cb2 = repo.func(MGM2, "Mgm2Computation._compute_best_value")
    co2 = repo.func(MGM2, "Mgm2Computation._compute_offers_to_send")
    fb2 = repo.func(MGM2, "Mgm2Computation._find_best_offer")
    sg2 = repo.func(MGM2, "Mgm2Computation._send_gain")
    og2 = repo.func(MGM2, "Mgm2Computation.on_gain_msg")
    for f in (hv2, hg2, ho2, cb2, co2, fb2, sg2, og2):
        ctx.touch(f)
    G.check_gain_definition(ctx, hv2, "R-GAIN", "self._potential_gain", "_compute_best_value")
    G.check_improvement_test(ctx, hv2, "R-GAIN", "self._potential_gain", "self._potential_value")
    first = [s for s in hv2.node.body if not (isinstance(s, ast.If) and "logger" in norm(s.test)) and not (isinstance(s, ast.Expr) and isinstance(s.value, ast.Constant))]
    ctx.check(bool(first) and norm(first[0]) == "self.__cost__ = self._current_local_cost()", "R-FRESH", "MGM2: current cost refreshed first thing every cycle", hv2,
              first[0] if first else hv2.node, "the current local cost must be recomputed when all neighbours' values are known, before offers and gains")
    clc = repo.func(MGM2, "Mgm2Computation._current_local_cost")
    t = norm(clc.node)
    ctx.check(("self._neighbors_values.copy()" in t or "{**self._neighbors_values, " in t) and "self.variable.name: self.current_value" in t and "self._compute_cost(**assignment)" in t, "R-FRESH",
              "MGM2: current cost = cost of (neighbours' values + own current value)", clc, clc.node, "the current cost must be evaluated on the current assignment")
    M.check_comparator_coherence(ctx, cb2, "R-MODE.b", need_both=True, min_instances=2)
    # arbitration sites use the helpers
    ffg2 = FuncFacts(hg2.node)
    bg = [c for c in walk_no_nested(hg2.node) if isinstance(c, ast.Call) and is_self_attr(c.func, "_best_gain")]
    ib = [c for c in walk_no_nested(hg2.node) if isinstance(c, ast.Call) and is_self_attr(c.func, "_is_better_gain")]
    raw = [c for c in walk_no_nested(hg2.node) if isinstance(c, ast.Call) and isinstance(c.func, ast.Name) and c.func.id in ("max", "min")]
    ctx.check(len(bg) == 2 and len(ib) == 2 and not raw, "R-MODE.d", "MGM2: both arbitration sites use the objective-aware helpers", hg2, (raw or bg or [hg2.node])[0],
              "the committed and the unilateral arbitration must both use _best_gain/_is_better_gain (no raw max/min over signed gains)")
    for c in ib:
        a0 = norm(c.args[0]) if c.args else ""
        ctx.check(a0 == "self._potential_gain", "R-MODE.d", "MGM2: own potential gain compared with the best neighbour gain", hg2, c,
                  "the first argument of _is_better_gain must be the variable's own potential gain")
    # unilateral: best over all neighbours
    uni = [n for n in walk_no_nested(hg2.node) if isinstance(n, ast.Assign) and norm(n.targets[0]) == "max_neighbors"]
    ctx.check(len(uni) == 1 and norm(uni[0].value) in ("self._best_gain(list(self._neighbors_gains.values()))", "self._best_gain(self._neighbors_gains.values())"),
              "R-MODE.d", "MGM2: unilateral arbitration over all neighbours' gains", hg2, uni[0] if uni else hg2.node, "the best neighbour gain must range over all neighbours")
    ng = [n for n in walk_no_nested(hg2.node) if isinstance(n, ast.Assign) and norm(n.targets[0]) == "neigh_gains"]
    okn = len(ng) == 1 and isinstance(ng[0].value, ast.ListComp) and norm(ng[0].value.generators[0].iter) == "self._neighbors_gains.items()" and \
        len(ng[0].value.generators[0].ifs) == 1 and norm(ng[0].value.generators[0].ifs[0]) == f"{norm(ng[0].value.generators[0].target.elts[0])} != self._partner.name"
    ctx.check(okn, "R-MODE.d", "MGM2: committed arbitration over all neighbours but the partner", hg2, ng[0] if ng else hg2.node,
              "a committed pair compares its gain with every neighbour except the partner")
    z = [s for s in hg2.node.body if isinstance(s, ast.If) and norm(s.test) == "self._potential_gain == 0"]
    ctx.check(len(z) == 1, "R-GAIN", "MGM2: a null potential gain never moves", hg2, z[0] if z else hg2.node, "gain 0 means no improvement: no move and no arbitration")
    G.check_go_decision(ctx, hg2, "R-GO")
    G.check_go_order(ctx, hg2, "R-GO")
    n_es = G.check_enter_state_last(ctx, [m_ for m_ in repo.cls(MGM2, "Mgm2Computation").methods.values()], "R-GO")
    if n_es < 8:
        ctx.defer(f"MGM2: only {n_es} paths entering a state found (8 confirmed by reading)")
    G.check_offer_slots(ctx, repo, "R-GO")
    G.check_mgm_costmodel(ctx, cb, hv, "R-GAIN")
    # flows
    mk = [c for c in walk_no_nested(sg2.node) if isinstance(c, ast.Call) and call_name(c) == "Mgm2GainMessage"]
    ctx.check(len(mk) == 1 and norm(mk[0].args[0]) == "self._potential_gain", "R-FLOW", "MGM2: the gain sent is the potential gain", sg2, mk[0] if mk else sg2.node, "")
    st = [n for n in walk_no_nested(og2.node) if isinstance(n, ast.Assign) and isinstance(n.targets[0], ast.Subscript) and is_self_attr(n.targets[0].value, "_neighbors_gains")]
    ctx.check(len(st) == 1 and norm(st[0].value) == f"{og2.params[2]}.value" and norm(st[0].targets[0].slice) == og2.params[1], "R-FLOW", "MGM2: received gain stored per sender", og2,
              st[0] if st else og2.node, "")
    # offers: only improving joint moves, valued current - cost
    ffo = FuncFacts(co2.node)
    so = [n for n in walk_no_nested(co2.node) if isinstance(n, ast.Assign) and isinstance(n.targets[0], ast.Subscript) and norm(n.targets[0].value) == "offers"]
    oko = len(so) == 1 and norm(so[0].value) == "self.current_cost - cost"
    if oko:
        fs = G.facts(ffo, so[0])
        cond = [n for n in ast.walk(co2.node) if isinstance(n, ast.If) and so[0] in n.body]
        tt = norm(cond[0].test) if cond else ""
        oko = ("self.current_cost > cost and self._mode == 'min'" in tt or "self._mode == 'min' and self.current_cost > cost" in tt) and \
              ("self.current_cost < cost and self._mode == 'max'" in tt or "self._mode == 'max' and self.current_cost < cost" in tt)
    ctx.check(oko, "R-MODE.d", "MGM2: only improving joint moves are offered, valued current - cost", co2, so[0] if so else co2.node,
              "an offer exists iff the joint move lowers the cost under 'min' / raises it under 'max'; its value is current cost - new cost")
    # best offer: running best over gains follows the objective (greater gain under min, smaller under max)
    facts_ = [cf for cf in M.accumulator_compares(fb2) if cf.acc == "best_gain"]
    seen = {cf.mode: cf.op for cf in facts_ if cf.mode}
    ctx.check(seen == {"min": ">", "max": "<"}, "R-MODE.d", "MGM2: best offer = greatest gain under min, smallest under max (strict)", fb2,
              facts_[0].stmt if facts_ else fb2.node, f"found {seen}")
    eq = [n for n in ast.walk(fb2.node) if isinstance(n, ast.If) and norm(n.test) in ("global_gain == best_gain", "best_gain == global_gain")]
    ctx.check(len(eq) == 1 and any("bests.append" in norm(s) for s in eq[0].body), "R-MODE.d", "MGM2: equal offers are all kept", fb2, eq[0] if eq else fb2.node, "ties must be collected")
    init = [n for n in walk_no_nested(fb2.node) if isinstance(n, ast.Assign) and "best_gain" in norm(n.targets[0]) and norm(n.value) == "([], 0)"]
    ctx.check(len(init) == 1, "R-MODE.d", "MGM2: best offer starts from gain 0 (no offer)", fb2, init[0] if init else fb2.node, "only strictly improving offers may be selected")
    # commit rule
    cm = [n for n in ast.walk(ho2.node) if isinstance(n, ast.If) and any(norm(s) == "self._committed = True" for s in n.body) and "self._mode" in norm(n.test)]
    okc = len(cm) == 1
    if okc:
        tt = norm(cm[0].test)
        okc = "self._mode == 'min' and gain > self._potential_gain" in tt and "self._mode == 'max' and gain < self._potential_gain" in tt
    ctx.check(okc, "R-MODE.d", "MGM2: an offer is accepted when it beats the unilateral gain in the direction of the objective", ho2, cm[0] if cm else ho2.node,
              "commit iff gain > potential gain under 'min' / gain < potential gain under 'max'")
    ctx.floor("R-MODE.d", 18)
    ctx.floor("R-GAIN", 6)


_M = "pydcop/algorithms/mgm.py"
_M2 = "pydcop/algorithms/mgm2.py"
VARIANTS = [
    ("mgm2_accepted_offer_unpacked_in_offerer_order", _M2, "                val_p, self._potential_value, partner_name = random.choice(best_offers)", "                self._potential_value, val_p, partner_name = random.choice(best_offers)", "break", "R-GO"),
    ("mgm_argmin_without_own_cost", _M, "            lambda x: functools.reduce(operator.add, [f(x) for f in reduced_cs])\n            + self.variable.cost_for_val(x),", "            lambda x: functools.reduce(operator.add, [f(x) for f in reduced_cs]),", "break", "R-GAIN"),
    ("mgm2_leaf_pair_never_goes", _M2, "            if neigh_gains == [] or self._is_better_gain(", "            if neigh_gains and self._is_better_gain(", "break", "R-GO"),
    ("mgm_mode_blind_again", _M, "            if self._mode == \"min\":\n                max_neighbors = max([gain for gain, _ in gains.values()])\n                is_best = self._gain > max_neighbors\n            else:\n                max_neighbors = min([gain for gain, _ in gains.values()])\n                is_best = self._gain < max_neighbors",
     "            max_neighbors = max([gain for gain, _ in gains.values()])\n            is_best = self._gain > max_neighbors", "break", "R-MODE.d"),
    ("mgm_max_uses_max", _M, "                max_neighbors = min([gain for gain, _ in gains.values()])", "                max_neighbors = max([gain for gain, _ in gains.values()])", "break", "R-MODE.d"),
    ("mgm_nonstrict", _M, "                is_best = self._gain < max_neighbors", "                is_best = self._gain <= max_neighbors", "break", "R-MODE.d"),
    ("mgm_stale_cost", _M, "            reduced_cs = []\n            concerned_vars = set()\n            cost = 0\n            for c in self.utilities:\n                asgt = filter_assignment_dict(self._neighbors_values, c.dimensions)\n                reduced_cs.append(c.slice(asgt))\n                cost = functools.reduce(",
     "            reduced_cs = []\n            concerned_vars = set()\n            cost = 0\n            for c in (self.utilities if self.current_cost is None else []):\n                asgt = filter_assignment_dict(self._neighbors_values, c.dimensions)\n                reduced_cs.append(c.slice(asgt))\n                cost = functools.reduce(", "break"),
    ("mgm_refresh_guarded", _M, "            self.value_selection(self.current_value, cost)\n\n            new_values, val_cost", "            if self.current_cost is None:\n                self.value_selection(self.current_value, cost)\n\n            new_values, val_cost", "break", "R-FRESH"),
    ("mgm_gain_reversed", _M, "            self._gain = self.current_cost - val_cost", "            self._gain = val_cost - self.current_cost", "break", "R-GAIN"),
    ("mgm_improve_test_min_only", _M, "            if ((self._mode == \"min\") & (self._gain > 0)) or (\n                (self._mode == \"max\") & (self._gain < 0)\n            ):", "            if self._gain > 0:", "break", "R-GAIN"),
    ("mgm_keep_not_current", _M, "            else:\n                self._new_value = self.current_value\n", "            else:\n                self._new_value = new_values[0]\n", "break", "R-GAIN"),
    ("mgm_sends_abs_gain", _M, "        msg = MgmGainMessage(self._gain, self.__random__)", "        msg = MgmGainMessage(abs(self._gain), self.__random__)", "break", "R-FLOW"),
    ("mgm_mode_const", _M, "            + self.variable.cost_for_val(x),\n            self._mode,\n        )", "            + self.variable.cost_for_val(x),\n            \"min\",\n        )", "break", "R-MODE.b"),
    ("mgm2_best_gain_blind", _M2, "        return max(gains) if self._mode == \"min\" else min(gains)", "        return max(gains)", "break", "R-MODE.d"),
    ("mgm2_better_blind", _M2, "        return gain > other_gain if self._mode == \"min\" else gain < other_gain", "        return gain > other_gain", "break", "R-MODE.d"),
    ("mgm2_raw_max_back", _M2, "            max_neighbors = self._best_gain(list(self._neighbors_gains.values()))\n            if self._is_better_gain(self._potential_gain, max_neighbors):", "            max_neighbors = max(list(self._neighbors_gains.values()))\n            if self._potential_gain > max_neighbors:", "break", "R-MODE.d"),
    ("mgm2_partner_not_excluded", _M2, "                if n != self._partner.name\n", "                if n != self.name\n", "break", "R-MODE.d"),
    ("mgm2_cost_not_refreshed", _M2, "        self.__cost__ = self._current_local_cost()\n", "        if self.__cost__ is None:\n            self.__cost__ = self._current_local_cost()\n", "break", "R-FRESH"),
    ("mgm2_offer_wrong_side", _M2, "            if (self.current_cost > cost and self._mode == \"min\") or (\n                self.current_cost < cost and self._mode == \"max\"\n            ):", "            if (self.current_cost > cost and self._mode == \"max\") or (\n                self.current_cost < cost and self._mode == \"min\"\n            ):", "break", "R-MODE.d"),
    ("mgm2_best_offer_flip", _M2, "                if (global_gain > best_gain and self._mode == \"min\") or (", "                if (global_gain < best_gain and self._mode == \"min\") or (", "break", "R-MODE.d"),
    ("mgm2_commit_flip", _M2, "            elif (self._mode == \"min\" and gain > self._potential_gain) or (\n                self._mode == \"max\" and gain < self._potential_gain\n            ):", "            elif gain > self._potential_gain:", "break", "R-MODE.d"),
    ("mgm2_best_value_flip", _M2, "                or (best_cost > c and self._mode == \"min\")", "                or (best_cost < c and self._mode == \"min\")", "break", "R-MODE.b"),
    ("mgm_tie_filter_dropped", _M, "                [\n                    k\n                    for k, (gain, _) in self._neighbors_gains.items()\n                    if gain == max_gain\n                ]\n                + [self.name]", "                [\n                    k\n                    for k, (gain, _) in self._neighbors_gains.items()\n                ]\n                + [self.name]", "break", "R-MODE.d"),
    ("n_mgm_ifexp", _M, "            if self._mode == \"min\":\n                max_neighbors = max([gain for gain, _ in gains.values()])\n                is_best = self._gain > max_neighbors\n            else:\n                max_neighbors = min([gain for gain, _ in gains.values()])\n                is_best = self._gain < max_neighbors",
     "            all_gains = [gain for gain, _ in gains.values()]\n            max_neighbors = max(all_gains) if self._mode == \"min\" else min(all_gains)\n            is_best = self._gain > max_neighbors if self._mode == \"min\" else self._gain < max_neighbors", "neutral"),
]
