"""E3 - domain provenance of values (R-PROV).

Abstract values:  NONE  (the constant None)
                  DOM   (a member of the computation's own variable domain)
                  DOMLIST (a sequence whose members are DOM)
                  COST  (a number computed from costs)
                  TOP   (anything else / unknown)
The analysis is flow-insensitive per function (join over all definitions of a
name), follows tuple-returning helpers through summaries computed from their
return statements, fields through all their assignments in the class, and
parameters through the call sites inside the class (bounded depth).
"""
import ast
from typing import Dict, List, Optional, Tuple

from .model import Repo, ClassInfo, FuncInfo, walk_no_nested, norm, call_name, is_self_attr

NONE, DOM, DOMLIST, COST, TOP, BOT = "NONE", "DOM", "DOMLIST", "COST", "TOP", "BOT"
DOMDICT, DOMITEMS, DOMITEM = "DOMDICT", "DOMITEMS", "DOMITEM"   # dict keyed by DOM / its items() / one (DOM, x) item
OWN_VAR = ("self.variable", "self._variable", "variable")


def join(a, b):
    if a == BOT:
        return b
    if b == BOT:
        return a
    if a == b:
        return a
    if {a, b} == {NONE, DOM}:
        return DOM
    return TOP


class Prov:
    def __init__(self, repo: Repo, cls: Optional[ClassInfo], own_var_exprs=OWN_VAR, contracts=None):
        self.repo = repo
        self.cls = cls
        self.own = own_var_exprs
        self.contracts = contracts or {}     # (func qualname, expr text) -> (prov, reason)
        self._field_cache: Dict[str, str] = {}
        self._sum_cache: Dict[str, Optional[List[str]]] = {}
        self._stack = set()
        self.why: List[str] = []

    # ------------------------------------------------------------------ exprs
    def is_own_domain(self, e: ast.AST) -> bool:
        t = norm(e)
        return any(t == f"{o}.domain" or t == f"{o}.domain.values" or t == f"list({o}.domain)" for o in self.own)

    def expr(self, e: ast.AST, f: FuncInfo, depth=0) -> str:
        if depth > 16:
            return TOP
        key = (f.qualname, norm(e))
        if key in self.contracts:
            return self.contracts[key][0]
        if isinstance(e, ast.Constant):
            return NONE if e.value is None else TOP
        if self.is_own_domain(e):
            return DOMLIST
        t = norm(e)
        if any(t == f"{o}.initial_value" for o in self.own):
            return DOM
        if t == "self.current_value":
            return DOM
        if isinstance(e, ast.Call):
            fn = norm(e.func)
            if fn in ("random.choice", "choice") and e.args:
                inner = self.expr(e.args[0], f, depth + 1)
                return DOM if inner == DOMLIST else DOMITEM if inner == DOMITEMS else TOP
            if fn in ("min", "max") and len(e.args) == 1:
                inner = self.expr(e.args[0], f, depth + 1)
                return DOM if inner == DOMLIST else DOMITEM if inner == DOMITEMS else TOP
            if fn in ("list", "sorted", "tuple", "set") and e.args:
                inner = self.expr(e.args[0], f, depth + 1)
                return DOMLIST if inner == DOMDICT else inner
            if fn in ("list", "set") and not e.args:
                return DOMLIST
            if isinstance(e.func, ast.Attribute) and e.func.attr in ("items", "keys", "copy") and not e.args:
                inner = self.expr(e.func.value, f, depth + 1)
                if inner == DOMDICT:
                    return {"items": DOMITEMS, "keys": DOMLIST, "copy": DOMDICT}[e.func.attr]
                if inner == DOMLIST and e.func.attr == "copy":
                    return DOMLIST
            s = self.summary_of_call(e, f, depth)
            if s is not None and len(s) == 1:
                return s[0]
            return TOP
        if isinstance(e, ast.DictComp):
            kp = self.comp_expr(e.key, e, f, depth + 1)
            return DOMDICT if kp == DOM else TOP
        if isinstance(e, (ast.ListComp, ast.GeneratorExp, ast.SetComp)):
            kp = self.comp_expr(e.elt, e, f, depth + 1)
            return DOMLIST if kp == DOM else TOP
        if isinstance(e, ast.Subscript):
            base = self.expr(e.value, f, depth + 1)
            if base == DOMITEM and isinstance(e.slice, ast.Constant) and e.slice.value == 0:
                return DOM
            if base == DOMLIST and not isinstance(e.slice, ast.Slice):
                return DOM
            if base == DOMLIST and isinstance(e.slice, ast.Slice):
                return DOMLIST
            return TOP
        if isinstance(e, ast.List):
            if not e.elts:
                return DOMLIST
            ps = [self.expr(x, f, depth + 1) for x in e.elts]
            return DOMLIST if all(p == DOM for p in ps) else TOP
        if isinstance(e, ast.IfExp):
            return join(self.expr(e.body, f, depth + 1), self.expr(e.orelse, f, depth + 1))
        if isinstance(e, ast.Name):
            return self.name(e.id, f, depth + 1)
        if is_self_attr(e):
            return self.field(e.attr, depth + 1)
        return TOP

    def comp_expr(self, e: ast.AST, comp, f: FuncInfo, depth) -> str:
        """provenance of an element expression of a comprehension (targets
        are resolved by name(): comprehension nodes are visited there)."""
        return self.expr(e, f, depth)

    # ------------------------------------------------------------------ names
    def name(self, n: str, f: FuncInfo, depth) -> str:
        key = ("name", f.fq, n)
        if key in self._stack:
            return BOT
        self._stack.add(key)
        try:
            res = BOT
            found = False
            for node in ast.walk(f.node):
                if isinstance(node, (ast.For, ast.comprehension)):
                    tgt = node.target
                    for i, el in enumerate(tgt.elts if isinstance(tgt, ast.Tuple) else [tgt]):
                        if isinstance(el, ast.Name) and el.id == n:
                            found = True
                            it = self.expr(node.iter, f, depth)
                            res = join(res, DOM if (it == DOMLIST and not isinstance(tgt, ast.Tuple)) else TOP)
                elif isinstance(node, ast.Assign):
                    for tgt in node.targets:
                        if isinstance(tgt, ast.Name) and tgt.id == n:
                            found = True
                            res = join(res, self.expr(node.value, f, depth))
                        elif isinstance(tgt, (ast.Tuple, ast.List)):
                            for i, el in enumerate(tgt.elts):
                                if isinstance(el, ast.Name) and el.id == n:
                                    found = True
                                    res = join(res, self.slot(node.value, i, len(tgt.elts), f, depth))
                elif isinstance(node, ast.AugAssign) and isinstance(node.target, ast.Name) and node.target.id == n:
                    found = True
                    res = join(res, TOP)
            # list built by appends of DOM values
            for node in ast.walk(f.node):
                if isinstance(node, ast.Call) and isinstance(node.func, ast.Attribute) and node.func.attr == "append" \
                        and isinstance(node.func.value, ast.Name) and node.func.value.id == n and node.args:
                    p = self.expr(node.args[0], f, depth)
                    if res in (DOMLIST, BOT):
                        res = DOMLIST if p == DOM else TOP
            if n in f.params:
                found = True
                res = join(res, self.param(f, n, depth))
            return res if found else TOP
        finally:
            self._stack.discard(key)

    def slot(self, value: ast.AST, i: int, arity: int, f: FuncInfo, depth) -> str:
        if isinstance(value, (ast.Tuple, ast.List)) and len(value.elts) == arity:
            return self.expr(value.elts[i], f, depth)
        key = (f.qualname, f"{norm(value)}[{i}]")
        if key in self.contracts:
            return self.contracts[key][0]
        if isinstance(value, ast.Name):
            # a tuple-valued local: join over its definitions
            res = BOT
            found = False
            for node in ast.walk(f.node):
                if isinstance(node, ast.Assign) and any(isinstance(t, ast.Name) and t.id == value.id for t in node.targets):
                    found = True
                    if isinstance(node.value, ast.Constant) and node.value.value is None:
                        continue  # `x = None` before a None test: no tuple to unpack
                    res = join(res, self.slot(node.value, i, arity, f, depth + 1)) if not isinstance(node.value, ast.Name) else TOP
            return res if found and res != BOT else TOP
        if isinstance(value, ast.Call):
            s = self.summary_of_call(value, f, depth)
            if s is not None and len(s) == arity:
                return s[i]
            if len(value.args) == 1 and isinstance(value.args[0], (ast.GeneratorExp, ast.ListComp)) and isinstance(value.args[0].elt, ast.Tuple) \
                    and len(value.args[0].elt.elts) == arity:
                # min / max / any selector over a stream of tuples: slot-wise
                return self.expr(value.args[0].elt.elts[i], f, depth + 1)
            # min / max / next / choice over the items of a dict keyed by domain values: (DOM, x)
            if call_name(value) in ("min", "max", "next", "choice") and value.args and arity == 2 and self.expr(value.args[0], f, depth + 1) == DOMITEMS:
                return DOM if i == 0 else TOP
            fn = norm(value.func)
            if fn in ("random.choice", "choice") and value.args:
                # choice over a list of tuples: slot provenance of the tuples
                inner = value.args[0]
                if isinstance(inner, ast.Name):
                    st = self.tuple_list_slots(inner.id, f, depth)
                    if st is not None and len(st) == arity:
                        return st[i]
        return TOP

    def tuple_list_slots(self, n: str, f: FuncInfo, depth):
        """slots of the tuples held by list `n` (bound from a summary whose
        slot is a list of tuples) - resolved through contracts only."""
        key = (f.qualname, f"{n}[*]")
        if key in self.contracts:
            return self.contracts[key][0]
        return None

    # ----------------------------------------------------------------- params
    def param(self, f: FuncInfo, p: str, depth) -> str:
        if self.cls is None or f.cls is None or depth > 12:
            return TOP
        idx = f.params.index(p) - 1
        res = BOT
        found = False
        for m in self.cls.methods.values():
            for c in walk_no_nested(m.node):
                if isinstance(c, ast.Call) and is_self_attr(c.func, f.name):
                    arg = None
                    if 0 <= idx < len(c.args):
                        arg = c.args[idx]
                    for k in c.keywords:
                        if k.arg == p:
                            arg = k.value
                    if arg is None:
                        return TOP
                    found = True
                    res = join(res, self.expr(arg, m, depth + 1))
        return res if found else TOP

    # ----------------------------------------------------------------- fields
    def field(self, name: str, depth) -> str:
        if self.cls is None:
            return TOP
        if name in self._field_cache:
            return self._field_cache[name]
        key = ("field", name)
        if key in self._stack:
            return BOT
        self._stack.add(key)
        try:
            res = BOT
            found = False
            for k in self.repo.mro(self.cls):
                for m in k.methods.values():
                    for node in walk_no_nested(m.node):
                        if isinstance(node, ast.Assign):
                            for tgt in node.targets:
                                if is_self_attr(tgt, name):
                                    found = True
                                    res = join(res, self.expr(node.value, m, depth))
                                elif isinstance(tgt, (ast.Tuple, ast.List)):
                                    for i, el in enumerate(tgt.elts):
                                        if is_self_attr(el, name):
                                            found = True
                                            res = join(res, self.slot(node.value, i, len(tgt.elts), m, depth))
            res = res if found else TOP
            if depth <= 2:
                self._field_cache[name] = res
            return res
        finally:
            self._stack.discard(key)

    # -------------------------------------------------------------- summaries
    def summary_of_call(self, call: ast.Call, f: FuncInfo, depth) -> Optional[List[str]]:
        callee = None
        if is_self_attr(call.func) and self.cls is not None:
            callee = self.repo.lookup_method(self.cls, call.func.attr)
        elif isinstance(call.func, ast.Name):
            r = self.repo.resolve_name(f.module, call.func.id)
            if isinstance(r, FuncInfo):
                callee = r
        elif isinstance(call.func, ast.Attribute):
            r = self.repo.resolve_expr(f.module, call.func)
            if isinstance(r, FuncInfo):
                callee = r
        if callee is None:
            return None
        # the callee must be applied to the computation's own variable
        return self.summary(callee, call, f, depth)

    def summary(self, callee: FuncInfo, call: ast.Call, caller: FuncInfo, depth) -> Optional[List[str]]:
        key = callee.fq + "|" + norm(call.args[0]) if call.args else callee.fq
        if key in self._sum_cache:
            return self._sum_cache[key]
        if depth > 12 or ("sum", callee.fq) in self._stack:
            return None
        self._stack.add(("sum", callee.fq))
        try:
            # bind the callee's variable parameter to the own variable when the argument is the own variable
            own = list(self.own)
            for i, a in enumerate(call.args):
                if norm(a) in self.own or norm(a).replace("_variable", "variable") in self.own:
                    params = callee.params[1:] if callee.cls is not None else callee.params
                    if i < len(params):
                        own.append(params[i])
            sub = Prov(self.repo, callee.cls if callee.cls is not None else None, tuple(own), self.contracts)
            sub._stack = self._stack
            rets = [r for r in walk_no_nested(callee.node) if isinstance(r, ast.Return) and r.value is not None
                    and not (isinstance(r.value, ast.Constant) and r.value.value is None)]
            if not rets:
                res = None
            else:
                arities = {len(r.value.elts) for r in rets if isinstance(r.value, ast.Tuple)}
                arity = arities.pop() if len(arities) == 1 else (1 if not arities else None)
                slots = None
                if arity is not None:
                    for r in rets:
                        v = r.value
                        if isinstance(v, ast.Tuple):
                            cur = [sub.expr(e, callee, depth + 1) for e in v.elts]
                        elif arity > 1 and isinstance(v, ast.Name):
                            cur = [sub.slot(v, i, arity, callee, depth + 1) for i in range(arity)]
                        elif arity == 1:
                            cur = [sub.expr(v, callee, depth + 1)]
                        else:
                            cur = [TOP] * arity
                        slots = cur if slots is None else [join(a, b) for a, b in zip(slots, cur)]
                res = slots
            self._sum_cache[key] = res
            return res
        finally:
            self._stack.discard(("sum", callee.fq))
