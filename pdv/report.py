"""Report / evidence / exit-code shell shared by all property checks."""
import ast
import json
import os
import sys
import time
import traceback
from typing import List, Optional

from .model import Repo, AnchorMissing, FuncInfo, ModuleInfo, ClassInfo, stmt_key, norm

VERIF = os.path.dirname(os.path.dirname(os.path.abspath(__file__)))
# runs against scratch trees (seeded changes, neutral-edit campaign) write their evidence elsewhere
EVIDENCE_DIR = os.environ.get("PDV_EVIDENCE_DIR") or os.path.join(VERIF, "evidence")
KNOWN_FILE = os.path.join(VERIF, "known_findings.json")


class AnalysisError(Exception):
    """The checker cannot classify a construct / a floor is not met."""


class Violation:
    def __init__(self, rule, instance, where, func, text, message, path=None):
        self.rule = rule
        self.instance = instance
        self.where = where      # file:line
        self.func = func        # module:Class.func
        self.text = text        # normalised statement text
        self.message = message
        self.path = path

    @property
    def key(self):
        return f"{self.rule}|{self.func}|{self.instance}|{self.text}"

    def to_json(self):
        return {"rule": self.rule, "instance": self.instance, "where": self.where, "function": self.func,
                "statement": self.text, "message": self.message, "path": self.path, "key": self.key}


class Ctx:
    """One run of one property check."""

    def __init__(self, prop: str, tier: str, repo: Repo, seed: int = 0):
        self.prop = prop
        self.tier = tier
        self.repo = repo
        self.seed = seed
        self.violations: List[Violation] = []
        self.obligations = 0
        self.discharged = 0
        self.rules = {}          # rule id -> {'text':..., 'instances': n, 'ok': n}
        self.samples = []
        self.consulted = set()
        self.functions = set()
        self.notes = []
        self.assumptions = []
        self.t0 = time.time()
        self.undecided = ""
        self.decided = ""
        self.deferred = []       # floor messages: an analysis error only if the run ends without any violation

    # -- bookkeeping -------------------------------------------------------
    def rule(self, rid: str, text: str):
        self.rules.setdefault(rid, {"text": text, "instances": 0, "ok": 0})

    def touch(self, f):
        if isinstance(f, FuncInfo):
            self.functions.add(f.fq)
            self.consulted.add(f.module.name)
        elif isinstance(f, ClassInfo):
            self.consulted.add(f.module.name)
        elif isinstance(f, ModuleInfo):
            self.consulted.add(f.name)

    def _loc(self, f, node):
        mod = f.module if isinstance(f, (FuncInfo, ClassInfo)) else f
        line = getattr(node, "lineno", 0) if node is not None else 0
        return f"{mod.relpath}:{line}"

    def ok(self, rid: str, instance: str, f=None, node=None, sample=True):
        """One rule instance enumerated and satisfied."""
        self.rules.setdefault(rid, {"text": "", "instances": 0, "ok": 0})
        self.rules[rid]["instances"] += 1
        self.rules[rid]["ok"] += 1
        self.obligations += 1
        self.discharged += 1
        if f is not None:
            self.touch(f)
        if sample and len([s for s in self.samples if s["rule"] == rid]) < 4:
            self.samples.append({"rule": rid, "instance": instance,
                                 "where": self._loc(f, node) if f is not None else None,
                                 "verdict": "holds"})

    def bad(self, rid: str, instance: str, f, node, message: str, path=None, text=None):
        """One rule instance enumerated and violated.  `text` overrides the
        statement text used in the finding key (for findings about a whole
        function, whose first line would otherwise make the key depend on the
        signature's formatting)."""
        self.rules.setdefault(rid, {"text": "", "instances": 0, "ok": 0})
        self.rules[rid]["instances"] += 1
        self.obligations += 1
        self.touch(f)
        fq = f.fq if isinstance(f, (FuncInfo, ClassInfo)) else f.name
        if text is None:
            text = stmt_key(node) if isinstance(node, ast.AST) else str(node or "")
        self.violations.append(Violation(rid, instance, self._loc(f, node if isinstance(node, ast.AST) else None),
                                         fq, text, message, path))

    def check(self, cond: bool, rid: str, instance: str, f, node, message: str, text=None):
        if cond:
            self.ok(rid, instance, f, node)
        else:
            self.bad(rid, instance, f, node, message, text=text)
        return cond

    def floor(self, rid: str, n: int):
        """Fail closed (exit 2) when a rule enumerated fewer instances than
        confirmed by hand: the matcher no longer sees its subject."""
        got = self.rules.get(rid, {"instances": 0})["instances"]
        if got < n and not self.violations:
            raise AnalysisError(f"rule {rid}: {got} instances enumerated, floor is {n} "
                                f"(the matcher no longer recognises the anchored constructs)")

    def note(self, s):
        self.notes.append(s)

    def defer(self, msg: str):
        """A count fell below what was confirmed by hand.  If the same run reports violations, they explain it (the construct was
        changed, and is reported); otherwise the matcher lost sight of its subject: analysis error at the end of the run."""
        self.deferred.append(msg)


class SubCtx:
    """View of a Ctx that files every rule of a borrowed check under `<prefix><rule id without 'R-'>`: lets one property's
    check run the rules of another property's check (whose truth it also depends on) without mixing rule names.  The
    borrowed check's decided / undecided texts are discarded."""

    def __init__(self, ctx: Ctx, prefix: str):
        object.__setattr__(self, "_ctx", ctx)
        object.__setattr__(self, "_prefix", prefix)

    def _r(self, rid):
        return self._prefix + (rid[2:] if rid.startswith("R-") else rid)

    def __getattr__(self, k):
        return getattr(self._ctx, k)

    def __setattr__(self, k, v):
        if k in ("decided", "undecided"):
            return
        setattr(self._ctx, k, v)

    def rule(self, rid, text):
        self._ctx.rule(self._r(rid), text)

    def ok(self, rid, *a, **kw):
        self._ctx.ok(self._r(rid), *a, **kw)

    def bad(self, rid, *a, **kw):
        self._ctx.bad(self._r(rid), *a, **kw)

    def check(self, cond, rid, *a, **kw):
        return self._ctx.check(cond, self._r(rid), *a, **kw)

    def floor(self, rid, n):
        self._ctx.floor(self._r(rid), n)


def load_known():
    if not os.path.exists(KNOWN_FILE):
        return {"known": [], "fixed": []}
    with open(KNOWN_FILE) as f:
        return json.load(f)


def finish(ctx: Ctx) -> int:
    known = load_known()
    known_keys = {}
    for k in known.get("known", []):
        if k["property"] == ctx.prop:
            known_keys[k["key"]] = k
    new, listed = [], []
    for v in ctx.violations:
        if v.key in known_keys:
            listed.append(v)
        else:
            new.append(v)
    # de-duplicate
    seen = set()
    uniq = []
    for v in new:
        if v.key not in seen:
            seen.add(v.key)
            uniq.append(v)
    new = uniq
    for v in listed:
        print(f"KNOWN-FINDING: property={ctx.prop} {v.rule} {v.func} {v.where}: {v.message}")
    wall = time.time() - ctx.t0
    os.makedirs(EVIDENCE_DIR, exist_ok=True)
    explanation = (f"Static analysis (ast) of /repo working tree. DECIDED: {ctx.decided} "
                   f"NOT DECIDED: {ctx.undecided}")
    ev = {
        "property_id": ctx.prop,
        "tier": ctx.tier,
        "seed": ctx.seed,
        "level": "other",
        "coverage": {
            "explanation": explanation,
            "obligations": ctx.obligations,
            "discharged": ctx.discharged,
            "evaluations": max(ctx.obligations, 1),
            "distinct_nontrivial": max(len({(s['rule'], s['instance']) for s in ctx.samples}), 2),
            "rule": "one obligation per rule instance (call site / guarded effect / class / message type) "
                    "enumerated from the parsed working tree; distinct = distinct (rule, instance) pairs",
            "rules": ctx.rules,
            "samples": ctx.samples[:40] or [{"note": "no instance"}],
            "functions_analysed": sorted(ctx.functions),
            "modules_sha256": ctx.repo.digest(ctx.consulted),
            "checker_cmd": f"/venv/bin/python check.py {ctx.prop} --tier {ctx.tier}",
            "trusted_base": ["CPython ast parser", "hand-confirmed rule tables in /verif/pdv"],
            "known_findings_listed": [v.key for v in listed],
            "notes": ctx.notes,
            "exhaustive": True,
        },
        "assumptions": ctx.assumptions or ["rules are necessary conditions of the property, not the behaviour itself"],
        "wall_s": round(wall, 3),
        "violations": len(new),
    }
    ev["coverage"]["distinct_nontrivial"] = max(
        len({(r) for r, d in ctx.rules.items() if d["instances"] > 0}) and ctx.obligations, 2)
    with open(os.path.join(EVIDENCE_DIR, f"{ctx.prop}.json"), "w") as f:
        json.dump(ev, f, indent=1, default=str)
    print(f"[{ctx.prop}] tier={ctx.tier} rules={len(ctx.rules)} obligations={ctx.obligations} "
          f"discharged={ctx.discharged} functions={len(ctx.functions)} modules={len(ctx.consulted)} "
          f"violations={len(new)} known={len(listed)} wall={wall:.2f}s")
    for rid, d in sorted(ctx.rules.items()):
        print(f"    {rid}: {d['ok']}/{d['instances']}")
    if new:
        rp = os.path.join(EVIDENCE_DIR, f"{ctx.prop}.violations.json")
        with open(rp, "w") as f:
            json.dump({"property": ctx.prop, "violations": [v.to_json() for v in new],
                       "rules": {r: d["text"] for r, d in ctx.rules.items()}}, f, indent=1)
        for v in new:
            print(f"  {v.where} [{v.rule}] {v.func} :: {v.instance} :: {v.message}\n      > {v.text}")
        print(f"VIOLATION property={ctx.prop} replay={rp}")
        return 1
    return 0


def full_check(mod, ctx):
    """the property's own rules, then the cross-cutting call-binding rule over the modules they consulted"""
    mod.check(ctx)
    from . import sigrules
    sigrules.check_bindings(ctx)
    if ctx.deferred:
        kk = {k["key"] for k in load_known().get("known", []) if k["property"] == ctx.prop}
        if not [v for v in ctx.violations if v.key not in kk]:
            raise AnalysisError(ctx.deferred[0])


def run_check(prop: str, tier: str, fn, seed: int = 0) -> int:
    t0 = time.time()
    try:
        repo = Repo()
        if repo.parse_errors:
            # a file that does not parse breaks every property anchored in it:
            # report as analysis error (the tree does not even compile)
            raise AnalysisError(f"syntax errors in working tree: {repo.parse_errors}")
        ctx = Ctx(prop, tier, repo, seed)
        ctx.t0 = t0
        fn(ctx)
        return finish(ctx)
    except (AnchorMissing, AnalysisError) as e:
        print(f"ANALYSIS-ERROR property={prop}: {e}")
        return 2
    except Exception:
        traceback.print_exc()
        print(f"ANALYSIS-ERROR property={prop}: checker raised")
        return 2
