"""Reference-guided normalisation of the analysed tree (a front end of the source
model).  The rules of the property modules are written against the names and
the orientation of comparisons / branches found in the tree they were confirmed
on.  Three classes of edits leave behaviour unchanged but would make such rules
miss their subject: renaming a local variable, writing `b == a` for `a == b`,
and writing `if not c: B else: A` for `if c: A else: B`.  This module undoes
exactly those edits, guided by a frozen inventory of the confirmed tree
(`pdv/refshape.json`, produced by `tools/gen_refshape.py`):

* locals   the function-local names (own scope; comprehension and lambda scopes
           are separate inventories) in order of first binding.  Names of the
           analysed function that the reference does not know are mapped, in
           order, onto the reference names the function no longer has - a
           consistent alpha-renaming (skipped if the target name occurs anywhere
           in the function);
* eqs      texts of the `==` / `!=` comparisons.  A comparison whose text is
           unknown but whose mirror image is known is mirrored;
* ifs      texts of the tests of `if` statements that have an `else`.  An `if`
           whose test is unknown but whose negation is known is flipped back.

Each step is semantics-preserving on its own (alpha-equivalence, symmetry of
equality, branch exchange under negation), so a tree that violates a property
still violates it after normalisation, and a tree that satisfies it still does.
Nothing is changed when the analysed function already matches the reference.
"""
import ast
import json
import os
from typing import Dict, List, Optional

HERE = os.path.dirname(os.path.abspath(__file__))
REF_FILE = os.path.join(HERE, "refshape.json")
_REF: Optional[dict] = None


def load_ref() -> dict:
    global _REF
    if _REF is None:
        try:
            with open(REF_FILE) as f:
                _REF = json.load(f)
        except OSError:
            _REF = {}
    return _REF


_COMPL = {ast.Is: ast.IsNot, ast.IsNot: ast.Is, ast.In: ast.NotIn, ast.NotIn: ast.In, ast.Eq: ast.NotEq, ast.NotEq: ast.Eq}
_SCOPES = (ast.FunctionDef, ast.AsyncFunctionDef, ast.Lambda, ast.ClassDef, ast.ListComp, ast.SetComp, ast.DictComp, ast.GeneratorExp)


def _own_nodes(fnode):
    """nodes of the function's own scope, in source order (nested scopes are not entered,
    except that the first iterable of a comprehension belongs to the enclosing scope)"""
    out = []

    def rec(n):
        for ch in ast.iter_child_nodes(n):
            if isinstance(ch, (ast.FunctionDef, ast.AsyncFunctionDef, ast.ClassDef)):
                out.append(ch)  # the def statement itself binds a name
                for d in ch.decorator_list:
                    rec_expr(d)
                continue
            if isinstance(ch, ast.Lambda):
                continue
            if isinstance(ch, (ast.ListComp, ast.SetComp, ast.DictComp, ast.GeneratorExp)):
                rec_expr(ch.generators[0].iter)
                continue
            out.append(ch)
            rec(ch)

    def rec_expr(e):
        out.append(e)
        rec(e)
    rec(fnode)
    return out


def _params(fnode):
    a = fnode.args
    p = [x.arg for x in a.posonlyargs + a.args + a.kwonlyargs]
    if a.vararg:
        p.append(a.vararg.arg)
    if a.kwarg:
        p.append(a.kwarg.arg)
    return p


def local_names(fnode) -> List[str]:
    params = set(_params(fnode))
    glob = set()
    order = []
    for n in _own_nodes(fnode):
        if isinstance(n, (ast.Global, ast.Nonlocal)):
            glob.update(n.names)
    for n in _own_nodes(fnode):
        nm = None
        if isinstance(n, ast.Name) and isinstance(n.ctx, (ast.Store, ast.Del)):
            nm = n.id
        elif isinstance(n, ast.ExceptHandler) and n.name:
            nm = n.name
        if nm and nm not in params and nm not in glob and nm not in order:
            order.append(nm)
    return order


def local_kinds(fnode) -> Dict[str, str]:
    """kind of the first binding of each local: 'for', 'with', 'except', 'assign:<value node type>', 'aug', 'def', 'import', 'other'"""
    kinds = {}
    params = set(_params(fnode))

    def note(nm, k):
        if nm not in params and nm not in kinds:
            kinds[nm] = k

    def names_of(t):
        return [n.id for n in ast.walk(t) if isinstance(n, ast.Name)]
    for n in _own_nodes(fnode):
        if isinstance(n, (ast.For, ast.AsyncFor)):
            for nm in names_of(n.target):
                note(nm, "for")
        elif isinstance(n, ast.Assign):
            multi = any(isinstance(t, (ast.Tuple, ast.List)) for t in n.targets)
            for t in n.targets:
                for nm in [x.id for x in ast.walk(t) if isinstance(x, ast.Name) and isinstance(x.ctx, ast.Store)]:
                    note(nm, "unpack" if multi else "assign:" + type(n.value).__name__)
        elif isinstance(n, ast.AnnAssign) and isinstance(n.target, ast.Name):
            note(n.target.id, "assign:" + (type(n.value).__name__ if n.value is not None else "None"))
        elif isinstance(n, ast.AugAssign) and isinstance(n.target, ast.Name):
            note(n.target.id, "aug")
        elif isinstance(n, (ast.With, ast.AsyncWith)):
            for it in n.items:
                if it.optional_vars is not None:
                    for nm in names_of(it.optional_vars):
                        note(nm, "with")
        elif isinstance(n, ast.ExceptHandler) and n.name:
            note(n.name, "except")
        elif isinstance(n, (ast.FunctionDef, ast.AsyncFunctionDef, ast.ClassDef)) and n is not fnode:
            note(n.name, "def")
        elif isinstance(n, (ast.Import, ast.ImportFrom)):
            for a in n.names:
                note((a.asname or a.name).split(".")[0], "import")
        elif isinstance(n, ast.NamedExpr):
            note(n.target.id, "assign:" + type(n.value).__name__)
    return kinds


def match_locals(fnode, ref: dict):
    """pairs (current unknown local -> reference local that is gone) with the same kind of first binding, in order; and the unknown locals left over"""
    cur = local_names(fnode)
    refl = ref.get("locals", [])
    unknown = [x for x in cur if x not in refl]
    missing = [x for x in refl if x not in cur]
    rk = ref.get("local_kinds")
    if rk is None:
        return list(zip(unknown, missing)), unknown[len(missing):]
    ck = local_kinds(fnode)
    pairs, left = [], []
    free = list(missing)
    for u in unknown:
        m = next((m for m in free if rk.get(m) == ck.get(u)), None)
        if m is None:
            left.append(u)
        else:
            free.remove(m)
            pairs.append((u, m))
    return pairs, left


def all_names(fnode) -> set:
    out = set()
    for n in ast.walk(fnode):
        if isinstance(n, ast.Name):
            out.add(n.id)
        elif isinstance(n, ast.arg):
            out.add(n.arg)
        elif isinstance(n, (ast.FunctionDef, ast.AsyncFunctionDef, ast.ClassDef)):
            if n is not fnode:  # the function's own name is not a name of its body
                out.add(n.name)
        elif isinstance(n, ast.ExceptHandler) and n.name:
            out.add(n.name)
        elif isinstance(n, ast.alias):
            out.add((n.asname or n.name).split(".")[0])
    return out


def _unparse(n):
    try:
        return ast.unparse(n)
    except Exception:  # pragma: no cover
        return ast.dump(n)


def eq_texts(fnode) -> List[str]:
    return sorted({_unparse(n) for n in ast.walk(fnode) if isinstance(n, ast.Compare) and len(n.ops) == 1 and isinstance(n.ops[0], (ast.Eq, ast.NotEq))})


def if_texts(fnode) -> List[str]:
    return sorted({_unparse(n.test) for n in ast.walk(fnode) if isinstance(n, ast.If) and n.orelse})


_COMPS = (ast.ListComp, ast.SetComp, ast.DictComp, ast.GeneratorExp)


def _bound_names(scope) -> List[str]:
    """names bound by a comprehension (generator targets, in order) or a lambda (parameters)"""
    out = []
    if isinstance(scope, ast.Lambda):
        return _params(scope)
    for g in scope.generators:
        for t in _ordered_names(g.target):
            if t not in out:
                out.append(t)
    return out


def _ordered_names(t) -> List[str]:
    if isinstance(t, ast.Name):
        return [t.id]
    out = []
    for ch in ast.iter_child_nodes(t):
        out += _ordered_names(ch)
    return out


def _rename_in_scope(scope, mapping):
    """rename the bound names of a comprehension / lambda inside it (inner scopes that rebind a name shadow it)"""
    def rec(n, active):
        if n is not scope and isinstance(n, _COMPS + (ast.Lambda,)):
            inner = set(_bound_names(n))
            if isinstance(n, _COMPS):
                rec(n.generators[0].iter, active)  # evaluated in the enclosing scope
                act2 = {k: v for k, v in active.items() if k not in inner}
                for i, g in enumerate(n.generators):
                    if i > 0:
                        rec(g.iter, act2)
                    rec(g.target, act2)
                    for c in g.ifs:
                        rec(c, act2)
                for fld in ("elt", "key", "value"):
                    if hasattr(n, fld):
                        rec(getattr(n, fld), act2)
                return
            active = {k: v for k, v in active.items() if k not in inner}
        if not active:
            return
        if isinstance(n, ast.Name) and n.id in active:
            n.id = active[n.id]
        elif isinstance(n, ast.arg) and n.arg in active:
            n.arg = active[n.arg]
        for ch in ast.iter_child_nodes(n):
            rec(ch, active)
    if isinstance(scope, _COMPS):
        # the first iterable belongs to the enclosing scope: not renamed
        for i, g in enumerate(scope.generators):
            if i > 0:
                rec(g.iter, mapping)
            rec(g.target, mapping)
            for c in g.ifs:
                rec(c, mapping)
        for fld in ("elt", "key", "value"):
            if hasattr(scope, fld):
                rec(getattr(scope, fld), mapping)
    else:
        rec(scope.args, mapping)
        rec(scope.body, mapping)


def canon(scope) -> str:
    """text of a comprehension / lambda with its bound names (and those of inner scopes) replaced by positional placeholders"""
    import copy
    c = copy.deepcopy(scope)
    counter = [0]

    def canon_rec(sc):
        names = _bound_names(sc)
        mapping = {}
        for nm in names:
            mapping[nm] = f"_b{counter[0]}"
            counter[0] += 1
        _rename_in_scope(sc, mapping)
        for n in ast.walk(sc):
            if n is not sc and isinstance(n, _COMPS + (ast.Lambda,)) and not getattr(n, "_canon_done", False):
                n._canon_done = True
                canon_rec(n)
    canon_rec(c)
    return _unparse(c)


def scope_inventory(fnode) -> Dict[str, List[str]]:
    """canonical text -> bound names, for the comprehensions / lambdas whose canonical text is unique in the function"""
    seen = {}
    for n in ast.walk(fnode):
        if isinstance(n, _COMPS + (ast.Lambda,)):
            k = canon(n)
            seen.setdefault(k, []).append(_bound_names(n))
    return {k: v[0] for k, v in seen.items() if all(x == v[0] for x in v)}


def shape(fnode) -> dict:
    from . import normalise2 as N2
    from . import normalise3 as N3
    return {"locals": local_names(fnode), "local_kinds": local_kinds(fnode), "eqs": eq_texts(fnode), "ifs": if_texts(fnode), "scopes": scope_inventory(fnode),
            "guards": N2.guard_forms(fnode), "ifs_noelse": N2.noelse_texts(fnode), "ifexps": N2.ifexp_texts(fnode),
            "scopes_all": sorted({canon(n) for n in ast.walk(fnode) if isinstance(n, _COMPS)}), "gloads": N3.global_loads(fnode), "params": _params(fnode), "names": N3.all_names(fnode), "fors": N3.for_targets(fnode)}


def functions_of(tree):
    """(qualname, node) for every function / method, nested ones included"""
    out = []

    def rec(body, prefix):
        for st in body:
            if isinstance(st, (ast.FunctionDef, ast.AsyncFunctionDef)):
                q = prefix + st.name
                out.append((q, st))
                rec(st.body, q + ".<locals>.")
            elif isinstance(st, ast.ClassDef):
                rec(st.body, prefix + st.name + ".")
            elif isinstance(st, (ast.If, ast.Try, ast.With, ast.For, ast.While)):
                for fld in ("body", "orelse", "finalbody"):
                    rec(getattr(st, fld, []) or [], prefix)
                for h in getattr(st, "handlers", []) or []:
                    rec(h.body, prefix)
    rec(tree.body, "")
    return out


def _simple_operand(v) -> bool:
    """an operand of and / or whose negation is written compactly (complementary operator, `not x`, or x for `not x`)"""
    return (isinstance(v, ast.Compare) and len(v.ops) == 1 and type(v.ops[0]) in _COMPL) or (isinstance(v, ast.UnaryOp) and isinstance(v.op, ast.Not)) \
        or isinstance(v, (ast.Name, ast.Attribute, ast.Call, ast.Subscript))


def _negate(test):
    """the negation of a test, in the canonical notation (complementary operator for a single
    identity / membership / equality comparison, `not` stripped or added otherwise)"""
    if isinstance(test, ast.UnaryOp) and isinstance(test.op, ast.Not):
        return test.operand
    if isinstance(test, ast.Compare) and len(test.ops) == 1 and type(test.ops[0]) in _COMPL:
        return ast.copy_location(ast.Compare(left=test.left, ops=[_COMPL[type(test.ops[0])]()], comparators=test.comparators), test)
    if isinstance(test, ast.BoolOp) and all(_simple_operand(v) for v in test.values):
        # De Morgan, as _PushNot writes it
        return ast.copy_location(ast.BoolOp(op=ast.And() if isinstance(test.op, ast.Or) else ast.Or(), values=[_negate(v) for v in test.values]), test)
    return ast.copy_location(ast.UnaryOp(op=ast.Not(), operand=test), test)


def _negation_text(test) -> str:
    return _unparse(_negate(test))


def normalise_function(fnode, ref: dict, parts=("locals", "eqs", "ifs")) -> int:
    """apply the three inverse edits to one function; returns the number of changes"""
    changed = 0
    # ---- 1. locals ------------------------------------------------------------------------
    cur = local_names(fnode) if "locals" in parts else []
    refl = ref.get("locals", [])
    pairs_, _left = match_locals(fnode, ref) if "locals" in parts else ([], [])
    if pairs_:
        used = all_names(fnode)
        mapping = {}
        for u, m in pairs_:
            if m in used:
                continue
            if m == "_" and not u.startswith("_"):
                continue   # a named local is never mapped onto the throwaway name
            mapping[u] = m
        if mapping:
            own = set(id(n) for n in _own_nodes(fnode))
            # names inside nested scopes that refer to our locals (closures, comprehension bodies) are renamed too,
            # unless the nested scope rebinds the name itself
            def rename(n, active):
                if isinstance(n, (ast.FunctionDef, ast.AsyncFunctionDef, ast.Lambda)) and n is not fnode:
                    inner = set(_params(n)) | (set(local_names(n)) if not isinstance(n, ast.Lambda) else set())
                    active = {k: v for k, v in active.items() if k not in inner}
                    if isinstance(n, (ast.FunctionDef, ast.AsyncFunctionDef)) and n.name in mapping and id(n) in own:
                        n.name = mapping[n.name]
                elif isinstance(n, (ast.ListComp, ast.SetComp, ast.DictComp, ast.GeneratorExp)):
                    bound = set()
                    for g in n.generators:
                        for t in ast.walk(g.target):
                            if isinstance(t, ast.Name):
                                bound.add(t.id)
                    # the first iterable is evaluated outside
                    rename(n.generators[0].iter, active)
                    inner_active = {k: v for k, v in active.items() if k not in bound}
                    for i, g in enumerate(n.generators):
                        if i > 0:
                            rename(g.iter, inner_active)
                        for c in g.ifs:
                            rename(c, inner_active)
                        rename(g.target, inner_active)
                    for fld in ("elt", "key", "value"):
                        if hasattr(n, fld):
                            rename(getattr(n, fld), inner_active)
                    return
                if not active:
                    return
                if isinstance(n, ast.Name) and n.id in active:
                    n.id = active[n.id]
                elif isinstance(n, ast.ExceptHandler) and n.name in active:
                    n.name = active[n.name]
                for ch in ast.iter_child_nodes(n):
                    rename(ch, active)
            for ch in ast.iter_child_nodes(fnode):
                rename(ch, dict(mapping))
            changed += len(mapping)
    # ---- 1b. comprehension / lambda bound names -------------------------------------------
    refs = ref.get("scopes", {}) if "locals" in parts else {}
    if refs:
        # outermost first (ast.walk is breadth first)
        for n in list(ast.walk(fnode)):
            if isinstance(n, _COMPS + (ast.Lambda,)):
                want = refs.get(canon(n))
                have = _bound_names(n)
                if want and want != have and len(want) == len(have):
                    free = all_names(n) - set(have)
                    if any(w in free for w in want):
                        continue
                    # two-step renaming avoids clashes between old and new names
                    tmp = {h: f"__pdv_tmp{i}" for i, h in enumerate(have)}
                    _rename_in_scope(n, tmp)
                    _rename_in_scope(n, {f"__pdv_tmp{i}": w for i, w in enumerate(want)})
                    changed += 1
    # ---- 2. equalities --------------------------------------------------------------------
    refe = set(ref.get("eqs", [])) if "eqs" in parts else set()
    if refe:
        for n in ast.walk(fnode):
            if isinstance(n, ast.Compare) and len(n.ops) == 1 and isinstance(n.ops[0], (ast.Eq, ast.NotEq)):
                t = _unparse(n)
                if t in refe:
                    continue
                mirrored = ast.Compare(left=n.comparators[0], ops=n.ops, comparators=[n.left])
                if _unparse(mirrored) in refe:
                    n.left, n.comparators = n.comparators[0], [n.left]
                    changed += 1
    # ---- 3. if / else ---------------------------------------------------------------------
    refi = set(ref.get("ifs", [])) if "ifs" in parts else set()
    refn = set(ref.get("ifs_noelse", [])) if "ifs" in parts else set()
    if refi or refn:
        for n in ast.walk(fnode):
            if isinstance(n, ast.If) and n.orelse and n.body:
                t = _unparse(n.test)
                if t in refi:
                    continue
                if _negation_text(n.test) in refi:
                    n.test = _negate(n.test)
                    n.body, n.orelse = n.orelse, n.body
                    changed += 1
                elif all(isinstance(x, ast.Pass) for x in n.body) and t not in refn and _negation_text(n.test) in refn:
                    # `if c: pass else: X` where the reference has `if not c: X`
                    n.test = _negate(n.test)
                    n.body, n.orelse = n.orelse, []
                    changed += 1
            elif isinstance(n, ast.If) and n.body and not n.orelse:
                t = _unparse(n.test)
                if t in refn or t in refi:
                    continue
                if _negation_text(n.test) in refi and _negation_text(n.test) not in refn:
                    # `if not c: X` where the reference has `if c: pass else: X`
                    n.test = _negate(n.test)
                    n.orelse = n.body
                    n.body = [ast.copy_location(ast.Pass(), n)]
                    changed += 1
    return changed


class _PushNot(ast.NodeTransformer):
    """`not (a is None)` -> `a is not None`, `not (a in b)` -> `a not in b`, `not (a == b)` -> `a != b`
    (and the converse forms): the negation of a single identity / membership / equality comparison is
    written with the complementary operator, which is how the repository writes it."""

    def __init__(self):
        self.n = 0

    def visit_UnaryOp(self, node):
        self.generic_visit(node)
        # De Morgan: `not (a or b)` is `not a and not b` when every operand has a compact negation
        if isinstance(node.op, ast.Not) and isinstance(node.operand, ast.BoolOp) and all(_simple_operand(v) for v in node.operand.values):
            self.n += 1
            vals = [_negate(v) for v in node.operand.values]
            return ast.copy_location(ast.BoolOp(op=ast.And() if isinstance(node.operand.op, ast.Or) else ast.Or(), values=vals), node)
        if isinstance(node.op, ast.Not) and isinstance(node.operand, ast.Compare) and len(node.operand.ops) == 1 and type(node.operand.ops[0]) in _COMPL:
            c = node.operand
            self.n += 1
            return ast.copy_location(ast.Compare(left=c.left, ops=[_COMPL[type(c.ops[0])]()], comparators=c.comparators), node)
        return node

    _OPS = {"gt": ast.Gt, "lt": ast.Lt, "ge": ast.GtE, "le": ast.LtE, "eq": ast.Eq, "ne": ast.NotEq}

    def visit_Compare(self, node):
        # `x in [a, b]` / `x in {a, b}` with constants is `x in (a, b)` (membership in a literal display)
        self.generic_visit(node)
        if len(node.ops) == 1 and isinstance(node.ops[0], (ast.In, ast.NotIn)) and isinstance(node.comparators[0], (ast.List, ast.Set)) and node.comparators[0].elts \
                and all(isinstance(e, ast.Constant) for e in node.comparators[0].elts):
            self.n += 1
            node.comparators[0] = ast.copy_location(ast.Tuple(elts=node.comparators[0].elts, ctx=ast.Load()), node.comparators[0])
        return node

    def visit_ListComp(self, node):
        # `[x for x in X]` is `list(X)`
        self.generic_visit(node)
        if len(node.generators) == 1 and not node.generators[0].ifs and not node.generators[0].is_async and isinstance(node.elt, ast.Name) and isinstance(node.generators[0].target, ast.Name) \
                and node.elt.id == node.generators[0].target.id:
            self.n += 1
            return ast.copy_location(ast.Call(func=ast.Name(id="list", ctx=ast.Load()), args=[node.generators[0].iter], keywords=[]), node)
        return node

    def visit_DictComp(self, node):
        # `{k: v for k, v in X.items()}` is `dict(X)`
        self.generic_visit(node)
        g = node.generators[0]
        if len(node.generators) == 1 and not g.ifs and not g.is_async and isinstance(g.target, ast.Tuple) and len(g.target.elts) == 2 and all(isinstance(e, ast.Name) for e in g.target.elts) \
                and isinstance(node.key, ast.Name) and isinstance(node.value, ast.Name) and (node.key.id, node.value.id) == (g.target.elts[0].id, g.target.elts[1].id) and node.key.id != node.value.id \
                and isinstance(g.iter, ast.Call) and isinstance(g.iter.func, ast.Attribute) and g.iter.func.attr == "items" and not g.iter.args and not g.iter.keywords:
            self.n += 1
            return ast.copy_location(ast.Call(func=ast.Name(id="dict", ctx=ast.Load()), args=[g.iter.func.value], keywords=[]), node)
        return node

    def visit_Call(self, node):
        # `list()` / `dict()` / `tuple()` without argument are the empty displays
        self.generic_visit(node)
        # operator.gt(a, b) is a > b; attrgetter('x') is lambda n: n.x
        if isinstance(node.func, ast.Attribute) and isinstance(node.func.value, ast.Name) and node.func.value.id == "operator" and not node.keywords:
            if node.func.attr in self._OPS and len(node.args) == 2 and not any(isinstance(a, ast.Starred) for a in node.args):
                self.n += 1
                return ast.copy_location(ast.Compare(left=node.args[0], ops=[self._OPS[node.func.attr]()], comparators=[node.args[1]]), node)
        fn_name = node.func.attr if isinstance(node.func, ast.Attribute) and isinstance(node.func.value, ast.Name) and node.func.value.id == "operator" else (node.func.id if isinstance(node.func, ast.Name) else None)
        if fn_name == "attrgetter" and len(node.args) == 1 and not node.keywords and isinstance(node.args[0], ast.Constant) and isinstance(node.args[0].value, str) and node.args[0].value.isidentifier():
            self.n += 1
            lam = ast.Lambda(args=ast.arguments(posonlyargs=[], args=[ast.arg(arg="n")], kwonlyargs=[], kw_defaults=[], defaults=[]),
                             body=ast.Attribute(value=ast.Name(id="n", ctx=ast.Load()), attr=node.args[0].value, ctx=ast.Load()))
            return ast.copy_location(lam, node)
        if fn_name == "itemgetter" and len(node.args) == 1 and not node.keywords and isinstance(node.args[0], ast.Constant):
            self.n += 1
            lam = ast.Lambda(args=ast.arguments(posonlyargs=[], args=[ast.arg(arg="n")], kwonlyargs=[], kw_defaults=[], defaults=[]),
                             body=ast.Subscript(value=ast.Name(id="n", ctx=ast.Load()), slice=node.args[0], ctx=ast.Load()))
            return ast.copy_location(lam, node)
        # zip(X, X[1:]) pairs the same consecutive elements as zip(X[:-1], X[1:]) (the repository's form)
        if isinstance(node.func, ast.Name) and node.func.id == "zip" and len(node.args) == 2 and not node.keywords and isinstance(node.args[0], ast.Name) \
                and _unparse(node.args[1]) == f"{node.args[0].id}[1:]":
            self.n += 1
            node.args[0] = ast.copy_location(ast.Subscript(value=node.args[0], slice=ast.Slice(lower=None, upper=ast.UnaryOp(op=ast.USub(), operand=ast.Constant(value=1)), step=None), ctx=ast.Load()), node.args[0])
            return node
        # isinstance(x, (A, B)) is isinstance(x, A) or isinstance(x, B): the repository never uses the tuple form
        if isinstance(node.func, ast.Name) and node.func.id == "isinstance" and len(node.args) == 2 and isinstance(node.args[1], ast.Tuple) and len(node.args[1].elts) >= 2 and not node.keywords:
            self.n += 1
            import copy as _copy
            vals = [ast.Call(func=ast.Name(id="isinstance", ctx=ast.Load()), args=[_copy.deepcopy(node.args[0]), e], keywords=[]) for e in node.args[1].elts]
            return ast.copy_location(ast.BoolOp(op=ast.Or(), values=vals), node)
        if isinstance(node.func, ast.Name) and not node.args and not node.keywords:
            if node.func.id == "list":
                self.n += 1
                return ast.copy_location(ast.List(elts=[], ctx=ast.Load()), node)
            if node.func.id == "dict":
                self.n += 1
                return ast.copy_location(ast.Dict(keys=[], values=[]), node)
            if node.func.id == "tuple":
                self.n += 1
                return ast.copy_location(ast.Tuple(elts=[], ctx=ast.Load()), node)
        return node

    def visit_JoinedStr(self, node):
        # f'..{f"x{a}"}..' is f'..x{a}..': nested f-strings without conversion / format spec are spliced, adjacent literals merged
        self.generic_visit(node)
        parts, changed = [], False
        for v in node.values:
            if isinstance(v, ast.FormattedValue) and isinstance(v.value, ast.JoinedStr) and v.conversion == -1 and v.format_spec is None:
                parts.extend(v.value.values)
                changed = True
            elif isinstance(v, ast.FormattedValue) and isinstance(v.value, ast.Constant) and isinstance(v.value.value, str) and v.conversion == -1 and v.format_spec is None:
                parts.append(ast.Constant(value=v.value.value))
                changed = True
            else:
                parts.append(v)
        if changed:
            merged = []
            for p_ in parts:
                if merged and isinstance(p_, ast.Constant) and isinstance(merged[-1], ast.Constant) and isinstance(p_.value, str) and isinstance(merged[-1].value, str):
                    merged[-1] = ast.Constant(value=merged[-1].value + p_.value)
                else:
                    merged.append(p_)
            node.values = merged
            self.n += 1
        return node

    def visit_Assign(self, node):
        # `t = t + e` / `t = t - e` is written `t += e` / `t -= e` (the repository's own idiom for accumulators)
        self.generic_visit(node)
        if len(node.targets) == 1 and isinstance(node.value, ast.BinOp) and isinstance(node.value.op, (ast.Add, ast.Sub)) \
                and isinstance(node.targets[0], (ast.Name, ast.Attribute, ast.Subscript)):
            t = node.targets[0]
            if _unparse(node.value.left) == _unparse(t):
                self.n += 1
                return ast.copy_location(ast.AugAssign(target=t, op=node.value.op, value=node.value.right), node)
        return node


def normalise_module(tree, module_name: str) -> int:
    from . import normalise2 as N2
    from . import normalise3 as N3
    pn = _PushNot()
    pn.visit(tree)
    pn.n += N3.merge_dict_updates(tree)
    pn.n += N3.append_loops(tree)
    ref = load_ref().get(module_name)
    if not ref:
        return pn.n
    n = pn.n
    if any("guards" in v for v in ref.values()):   # reference produced with the structural inventory
        try:
            n += N3.inline_module_constants(tree, ref)
            n += N3.untuple_records(tree, ref)
            n += N3.inline_generator_helpers(tree, ref)
        except Exception:   # pragma: no cover
            pass
        try:
            n += N2.inline_helpers(tree, ref)
        except Exception:   # pragma: no cover - the front end must never take the analysis down
            pass
        ic = N2._IfExpCall()
        ic.visit(tree)
        n += ic.n
    for q, fn in functions_of(tree):
        r = ref.get(q)
        if r:
            if "guards" in r:
                n += normalise_function(fn, r)
                for step in (N3.items_to_keys, N3.unpack_to_index, N3.expand_next, N3.expand_next_search, N3.expand_dict_dispatch, N3.expand_joins, N3.split_new_tuple_assigns, N3.dup_tails, N3.split_flagged_branches,
                             N2.merge_branch_assignments, N2.inline_new_locals, N2.inline_new_locals, N3.expand_dict_dispatch, N3.unroll_display_loops, N3.expand_joins, N3.fuse_comp_loops, N2._ifexp_calls, N2.ifexp_tests, N2.split_ifexp_statements, N2.expand_new_comprehensions, N3.unroll_display_loops, N2.split_ifexp_statements, N2.contract_known_loops, N2.inline_new_locals, N2.contract_known_ifexp, N3.factor_chain_conjunct, N2.inline_new_locals, N2.unguard, N2.guardify):
                    try:
                        n += step(fn, r)
                    except Exception:   # pragma: no cover
                        pass
            n += normalise_function(fn, r)
            if "guards" in r:
                for step in (N2.contract_known_ifexp, N2.contract_known_loops, N2.unguard, N2.guardify, N2.emptiness_forms):
                    try:
                        n += step(fn, r)
                    except Exception:   # pragma: no cover
                        pass
                N3.append_loops(fn)
                pn2 = _PushNot()
                pn2.visit(fn)
                ast.fix_missing_locations(fn)
    return n


def build_reference(modules: Dict[str, ast.AST]) -> dict:
    out = {}
    for name, tree in sorted(modules.items()):
        _PushNot().visit(tree)   # texts are compared after the unconditional canonicalisation
        from . import normalise3 as N3
        N3.merge_dict_updates(tree)
        N3.append_loops(tree)
        fs = {}
        for q, fn in functions_of(tree):
            fs[q] = shape(fn)
        fs["<module>"] = {"globals": N3.module_globals(tree)}
        out[name] = fs
    return out
