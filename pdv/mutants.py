"""Self-test of the rule set (thorough tier).

Each property module may define ``VARIANTS``: a list of
``(name, relative path, old text, new text, kind[, expected rule prefix])``
where kind is 'break' (the edited tree violates a decided clause: the check
must report a violation, naming a rule with the expected prefix) or 'neutral'
(behaviour-preserving edit: the check must stay silent).

Variants are applied *in memory* (Repo overlay): nothing is written to disk and
/repo is never touched.  A variant whose ``old`` text does not occur exactly
once in today's file is skipped (reported as not applicable): the tree under
analysis may legitimately differ from the one the variant was written for.
"""
import importlib
import json
import os
import sys
import time
from concurrent.futures import ProcessPoolExecutor

from . import model
from .model import Repo, AnchorMissing
from .report import Ctx, AnalysisError, load_known, EVIDENCE_DIR
from . import report


def _evaluate(args):
    prop, idx = args
    mod = importlib.import_module("pdv.props." + prop.lower())
    v = mod.VARIANTS[idx]
    name, rel, old, new, kind = v[:5]
    expect = v[5] if len(v) > 5 else None
    path = os.path.join(model.REPO, rel)
    try:
        src = open(path, encoding="utf-8").read()
    except OSError:
        return name, kind, "n/a", "file missing"
    if isinstance(old, (list, tuple)):
        # several coordinated replacements (each replaces all its occurrences)
        new_src = src
        for o, n_ in zip(old, new):
            if new_src.count(o) < 1:
                return name, kind, "n/a", f"anchor text does not occur: {o[:40]!r}"
            new_src = new_src.replace(o, n_)
    elif name.endswith("*"):
        # replace-all variant (e.g. a local rename)
        if src.count(old) < 1:
            return name, kind, "n/a", "anchor text does not occur"
        new_src = src.replace(old, new)
    elif src.count(old) != 1:
        return name, kind, "n/a", f"anchor text occurs {src.count(old)} times"
    else:
        new_src = src.replace(old, new)
    try:
        repo = Repo(overlay={rel: new_src})
        if repo.parse_errors:
            return name, kind, "error", f"variant does not parse: {repo.parse_errors}"
        ctx = Ctx(prop, "thorough", repo, 0)
        report.full_check(mod, ctx)
    except (AnchorMissing, AnalysisError) as e:
        return name, kind, "analysis-error", str(e)
    except Exception as e:  # pragma: no cover
        import traceback
        return name, kind, "error", traceback.format_exc()
    known = {k["key"] for k in load_known().get("known", []) if k["property"] == prop}
    new_v = [x for x in ctx.violations if x.key not in known]
    if kind == "break":
        if not new_v:
            return name, kind, "MISSED", "no violation reported"
        if expect and not any(x.rule.startswith(expect) for x in new_v):
            return name, kind, "WRONG-RULE", f"reported {sorted({x.rule for x in new_v})}, expected {expect}"
        return name, kind, "detected", "; ".join(sorted({f"{x.rule}@{x.where}" for x in new_v}))[:300]
    else:
        if new_v:
            return name, kind, "FALSE-ALARM", "; ".join(f"{x.rule}@{x.where}:{x.message}" for x in new_v)[:400]
        return name, kind, "silent", ""


def run_variants(prop: str, jobs: int = None, verbose=True):
    mod = importlib.import_module("pdv.props." + prop.lower())
    variants = getattr(mod, "VARIANTS", [])
    if not variants:
        return []
    jobs = jobs or 1  # in-memory variants with a parse cache: ~30 ms each, a pool does not pay off
    items = [(prop, i) for i in range(len(variants))]
    if jobs > 1 and len(variants) > 3:
        with ProcessPoolExecutor(max_workers=jobs) as ex:
            res = list(ex.map(_evaluate, items))
    else:
        res = [_evaluate(i) for i in items]
    return res


def run_neutral(prop: str, seed: int = 0):
    """Every behaviour-preserving transformation of pdv/neutral.py applied (in memory) to the modules the
    property's check consults: the check must stay silent."""
    from . import neutral
    mod = importlib.import_module("pdv.props." + prop.lower())
    base = Repo()
    ctx0 = Ctx(prop, "thorough", base, seed)
    report.full_check(mod, ctx0)
    consulted = sorted(ctx0.consulted)
    known = {k["key"] for k in load_known().get("known", []) if k["property"] == prop}
    out = []
    for kind in neutral.KINDS:
        overlay = {}
        for mn in consulted:
            mi = base.modules.get(mn)
            if mi is None:
                continue
            try:
                new = neutral.transform(mi.source, kind)
                compile(new, mi.path, "exec")
            except Exception as e:  # a transformation that cannot be applied to a file is skipped for that file
                continue
            overlay[mi.relpath] = new
        try:
            repo = Repo(overlay=overlay)
            ctx = Ctx(prop, "thorough", repo, seed)
            report.full_check(mod, ctx)
            new_v = [x for x in ctx.violations if x.key not in known]
            if new_v:
                out.append((f"neutral:{kind}", "neutral", "FALSE-ALARM", "; ".join(f"{x.rule}@{x.where}:{x.instance[:80]}" for x in new_v)[:400]))
            else:
                out.append((f"neutral:{kind}", "neutral", "silent", f"{len(overlay)} modules"))
        except (AnchorMissing, AnalysisError) as e:
            out.append((f"neutral:{kind}", "neutral", "analysis-error", str(e)[:200]))
    return out


def selftest(prop: str, seed: int = 0) -> int:
    t0 = time.time()
    res = run_variants(prop)
    res = list(res) + run_neutral(prop, seed)
    if not res:
        print(f"[{prop}] self-test: no variant corpus for this property")
        return 0
    bad = [r for r in res if r[2] in ("MISSED", "WRONG-RULE", "FALSE-ALARM", "error", "analysis-error")]
    nb = sum(1 for r in res if r[1] == "break" and r[2] != "n/a")
    nn = sum(1 for r in res if r[1] == "neutral" and r[2] != "n/a")
    db = sum(1 for r in res if r[1] == "break" and r[2] == "detected")
    dn = sum(1 for r in res if r[1] == "neutral" and r[2] == "silent")
    na = sum(1 for r in res if r[2] == "n/a")
    print(f"[{prop}] self-test: breaking variants detected {db}/{nb}, neutral variants silent {dn}/{nn}, "
          f"not applicable {na}, wall {time.time() - t0:.1f}s")
    for r in bad:
        print(f"    SELFTEST {r[2]}: {r[0]} ({r[1]}): {r[3]}")
    for r in res:
        if r[2] == "n/a":
            print(f"    selftest variant not applicable to this tree: {r[0]}: {r[3]}")
    # record in the evidence file written by the main run
    ev_path = os.path.join(EVIDENCE_DIR, f"{prop}.json")
    try:
        ev = json.load(open(ev_path))
        ev["coverage"]["selftest"] = {"breaking_detected": f"{db}/{nb}", "neutral_silent": f"{dn}/{nn}", "not_applicable": na,
                                      "variants": [{"name": r[0], "kind": r[1], "outcome": r[2]} for r in res]}
        ev["wall_s"] = round(ev.get("wall_s", 0) + time.time() - t0, 3)
        json.dump(ev, open(ev_path, "w"), indent=1)
    except Exception:
        pass
    if bad:
        print(f"ANALYSIS-ERROR property={prop}: self-test of the rule set failed (the checker, not the code, is at fault)")
        return 2
    return 0


if __name__ == "__main__":
    sys.dont_write_bytecode = True
    for p in sys.argv[1:]:
        for r in run_variants(p):
            print(p, *r)
