"""Shared helpers for the wire-format rules (R-REPR, R-PROTO(c))."""
import ast
from typing import Dict, List, Optional, Set, Tuple

from .model import Repo, ClassInfo, FuncInfo, walk_no_nested, is_self_attr, norm, call_name

SR_MOD = "pydcop.utils.simple_repr"
META_KEYS = {"__module__", "__qualname__", "__type__"}


def simple_repr_classes(repo: Repo) -> List[ClassInfo]:
    return sorted(repo.subclasses_of(SR_MOD, "SimpleRepr"), key=lambda c: c.fq)


def init_of(repo: Repo, ci: ClassInfo) -> Optional[FuncInfo]:
    return repo.lookup_method(ci, "__init__")


def positional_params(f: FuncInfo) -> List[str]:
    """what utils.various.func_args(self.__init__) returns minus self:
    co_varnames[:co_argcount] = positional-or-keyword parameters."""
    return f.params[1:] if f else []


def stored_fields(repo: Repo, ci: ClassInfo) -> Dict[str, List[Tuple[FuncInfo, ast.AST]]]:
    """field -> [(method, assignment node)] for every `self.f = ...` (also
    tuple targets) in any method along the MRO, plus class attributes and
    properties."""
    out: Dict[str, List[Tuple[FuncInfo, ast.AST]]] = {}
    for k in repo.mro(ci):
        for m in k.methods.values():
            for n in walk_no_nested(m.node):
                tgts = []
                if isinstance(n, ast.Assign):
                    tgts = n.targets
                elif isinstance(n, (ast.AnnAssign, ast.AugAssign)):
                    tgts = [n.target]
                for t in tgts:
                    for e in (t.elts if isinstance(t, (ast.Tuple, ast.List)) else [t]):
                        if is_self_attr(e):
                            out.setdefault(e.attr, []).append((m, n))
            if m.is_property():
                out.setdefault(m.name, []).append((m, m.node))
        for a, v in k.class_attrs.items():
            out.setdefault(a, []).append((None, v))
    return out


def repr_method(repo: Repo, ci: ClassInfo, name: str) -> Optional[FuncInfo]:
    m = repo.lookup_method(ci, name)
    if m is None or (m.cls.name == "SimpleRepr" and m.module.name == SR_MOD):
        return None
    return m


def calls_super_repr(m: FuncInfo, name: str) -> bool:
    for c in walk_no_nested(m.node):
        if isinstance(c, ast.Call) and isinstance(c.func, ast.Attribute) and c.func.attr == name:
            v = c.func.value
            if isinstance(v, ast.Call) and call_name(v) == "super":
                return True
            if isinstance(v, ast.Name) and v.id in ("SimpleRepr",):
                return True
    return False


def dict_var_keys_written(m: FuncInfo) -> Tuple[Set[str], Set[str], bool]:
    """(keys written, keys popped/deleted, uses_super) for a _simple_repr-like
    method building a dict in a local variable that it returns."""
    written, removed = set(), set()
    for n in walk_no_nested(m.node):
        if isinstance(n, ast.Dict):
            for k in n.keys:
                if isinstance(k, ast.Constant) and isinstance(k.value, str):
                    written.add(k.value)
        if isinstance(n, ast.Assign):
            for t in n.targets:
                if isinstance(t, ast.Subscript) and isinstance(t.value, ast.Name) and isinstance(t.slice, ast.Constant):
                    written.add(t.slice.value)
        if isinstance(n, ast.Call) and isinstance(n.func, ast.Attribute) and n.func.attr == "pop" and n.args \
                and isinstance(n.args[0], ast.Constant) and isinstance(n.func.value, ast.Name):
            removed.add(n.args[0].value)
        if isinstance(n, ast.Delete):
            for t in n.targets:
                if isinstance(t, ast.Subscript) and isinstance(t.slice, ast.Constant):
                    removed.add(t.slice.value)
    return written - META_KEYS, removed, calls_super_repr(m, "_simple_repr")


def keys_read(m: FuncInfo, rname: str) -> Tuple[Set[str], bool]:
    """(constant keys read from dict param `rname`, has generic remainder i.e.
    iterates rname.items())."""
    keys = set()
    generic = False
    for n in walk_no_nested(m.node):
        if isinstance(n, ast.Subscript) and isinstance(n.value, ast.Name) and n.value.id == rname \
                and isinstance(n.slice, ast.Constant) and isinstance(n.slice.value, str):
            keys.add(n.slice.value)
        if isinstance(n, ast.Compare) and len(n.ops) == 1 and isinstance(n.ops[0], (ast.In, ast.NotIn)) \
                and isinstance(n.left, ast.Constant) and isinstance(n.comparators[0], ast.Name) and n.comparators[0].id == rname:
            keys.add(n.left.value)
        if isinstance(n, ast.Call) and isinstance(n.func, ast.Attribute) and isinstance(n.func.value, ast.Name) \
                and n.func.value.id == rname:
            if n.func.attr == "items":
                generic = True
            if n.func.attr in ("pop", "get") and n.args and isinstance(n.args[0], ast.Constant):
                keys.add(n.args[0].value)
    return keys - META_KEYS, generic


def property_field(repo: Repo, ci: ClassInfo, attr: str) -> Optional[str]:
    """self.<attr> -> the underlying field name: attr itself when it is a
    stored field, or `_f` when attr is a property whose every return is
    `self._f`."""
    m = repo.lookup_method(ci, attr)
    if m is not None and m.is_property():
        rets = [r for r in walk_no_nested(m.node) if isinstance(r, ast.Return) and r.value is not None]
        fields = {r.value.attr for r in rets if is_self_attr(r.value)}
        if len(fields) == 1 and len(rets) >= 1:
            # tolerate guards like `if self._x is None: return dict()`
            return fields.pop()
        return None
    return attr


def field_params(repo: Repo, ci: ClassInfo, field: str, depth: int = 0) -> Set[str]:
    """The constructor parameters of `ci` from which self.<field> is derived on
    some path of the constructor (direct stores, stores through a property
    setter, and stores made by a base constructor reached via super().__init__)."""
    init = repo.lookup_method(ci, "__init__")
    out: Set[str] = set()
    if init is None or depth > 4:
        return out
    owner = init.cls
    params = set(init.params[1:]) | set(init.kwonly)
    if init.node.args.kwarg:
        params.add(init.node.args.kwarg.arg)
    # properties with a setter that stores into `field`
    setter_names = set()
    for k in repo.mro(owner):
        for mname, m in k.methods.items():
            if mname.endswith(".setter"):
                for n in walk_no_nested(m.node):
                    if isinstance(n, ast.Assign) and any(is_self_attr(t, field) for t in n.targets):
                        setter_names.add(m.name)
    for n in walk_no_nested(init.node):
        if isinstance(n, (ast.Assign, ast.AnnAssign)):
            tgts = n.targets if isinstance(n, ast.Assign) else [n.target]
            for t in tgts:
                for e in (t.elts if isinstance(t, (ast.Tuple, ast.List)) else [t]):
                    if is_self_attr(e, field) or (is_self_attr(e) and e.attr in setter_names):
                        v = n.value
                        if v is None:
                            continue
                        if isinstance(t, (ast.Tuple, ast.List)) and isinstance(v, (ast.Tuple, ast.List)):
                            v = v.elts[list(t.elts).index(e)]
                        out |= {x.id for x in ast.walk(v) if isinstance(x, ast.Name) and x.id in params}
    # through super().__init__(...) / Base.__init__(self, ...)
    for c in walk_no_nested(init.node):
        if isinstance(c, ast.Call) and isinstance(c.func, ast.Attribute) and c.func.attr == "__init__":
            v = c.func.value
            base = None
            args = []
            if isinstance(v, ast.Call) and call_name(v) == "super":
                m = repo.lookup_method_after(ci, owner, "__init__")
                base = m.cls if m else None
                args = list(c.args)
            elif isinstance(v, ast.Name):
                b = repo.resolve_name(init.module, v.id)
                base = b if isinstance(b, ClassInfo) else None
                args = list(c.args)[1:]
            if base is None:
                continue
            binit = repo.lookup_method(base, "__init__")
            if binit is None:
                continue
            bparams = binit.params[1:]
            for bp in field_params(repo, base, field, depth + 1):
                expr = None
                for k in c.keywords:
                    if k.arg == bp:
                        expr = k.value
                if expr is None and bp in bparams and bparams.index(bp) < len(args):
                    expr = args[bparams.index(bp)]
                if expr is not None:
                    out |= {x.id for x in ast.walk(expr) if isinstance(x, ast.Name) and x.id in params}
    return out


def field_param(repo: Repo, ci: ClassInfo, field: str) -> Optional[str]:
    ps = field_params(repo, ci, field)
    return next(iter(ps)) if len(ps) == 1 else None


def bind_call(call: ast.Call, params: List[str], n_required: int, has_vararg: bool, has_varkw: bool,
              kwonly: List[str] = ()) -> Optional[str]:
    """None when the call binds the signature, else a reason."""
    if any(isinstance(a, ast.Starred) for a in call.args) or any(k.arg is None for k in call.keywords):
        return None  # dynamic: cannot decide
    npos = len(call.args)
    if npos > len(params) and not has_vararg:
        return f"{npos} positional arguments for {len(params)} parameters"
    bound = set(params[:npos])
    for k in call.keywords:
        if k.arg in bound:
            return f"parameter {k.arg} bound twice"
        if k.arg not in params and k.arg not in kwonly and not has_varkw:
            return f"unknown keyword {k.arg}"
        bound.add(k.arg)
    missing = [p for p in params[:n_required] if p not in bound]
    if missing:
        return f"missing required argument(s) {missing}"
    return None


_REORDER = {"sorted", "reversed", "set", "frozenset"}


def _dict_side(e):
    """(dict text, 'keys'|'values'|'items', reordered?) when e enumerates one side of a dict"""
    re_ = False
    while isinstance(e, ast.Call) and isinstance(e.func, ast.Name) and e.func.id in (_REORDER | {"list", "tuple"}) and len(e.args) >= 1:
        if e.func.id in _REORDER:
            re_ = True
        e = e.args[0]
    if isinstance(e, ast.Call) and isinstance(e.func, ast.Attribute) and e.func.attr in ("keys", "values", "items") and not e.args:
        return norm(e.func.value), e.func.attr, re_
    if isinstance(e, (ast.Attribute, ast.Name)):
        return norm(e), "keys", re_   # iterating a dict enumerates its keys
    return None


def check_parallel_lists(ctx, rule, funcs):
    """A mapping sent as two parallel lists (keys / values, re-zipped by the reader) must enumerate both sides in the same
    order: keys() and values() of one dict agree, but not after one side alone went through sorted() / reversed() / set()."""
    n = 0
    for f in funcs:
        stores = {}
        for a in ast.walk(f.node):
            if isinstance(a, ast.Assign) and isinstance(a.targets[0], ast.Subscript) and isinstance(a.targets[0].slice, ast.Constant):
                side = _dict_side(a.value)
                if side:
                    stores.setdefault(side[0], []).append((a, side))
        # single traversal: `ks, vs = zip(*D.items())` is aligned by construction
        for a in ast.walk(f.node):
            if isinstance(a, ast.Assign) and isinstance(a.targets[0], ast.Tuple) and len(a.targets[0].elts) == 2 and isinstance(a.value, ast.Call) and isinstance(a.value.func, ast.Name) \
                    and a.value.func.id == "zip" and len(a.value.args) == 1 and isinstance(a.value.args[0], ast.Starred):
                inner = a.value.args[0].value
                if isinstance(inner, ast.Call) and isinstance(inner.func, ast.Attribute) and inner.func.attr == "items":
                    n += 1
                    ctx.ok(rule, f"{f.qualname}: keys and values of `{norm(inner.func.value)}` come from one traversal", f, a)
        for d, lst in stores.items():
            kinds = {s[1] for _, s in lst}
            if not ({"keys", "values"} <= kinds):
                continue
            n += 1
            re_flags = {s[2] for _, s in lst}
            bad = next((a for a, s in lst if s[2]), None)
            ctx.check(len(re_flags) == 1 and True not in re_flags or all(s[2] is False for _, s in lst), rule, f"{f.qualname}: keys and values of `{d}` are listed in the same order", f, bad or lst[0][0],
                      f"the reader pairs the two lists position by position: re-ordering one side of `{d}` alone attaches every value to another key")
    return n
