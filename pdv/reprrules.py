"""Shared helpers for the wire-format rules (R-REPR, R-PROTO(c))."""
import ast
from typing import Dict, List, Optional, Set, Tuple

from .model import Repo, ClassInfo, FuncInfo, walk_no_nested, is_self_attr, norm, call_name

SR_MOD = "pydcop.utils.simple_repr"
META_KEYS = {"__module__", "__qualname__", "__type__"}


def simple_repr_classes(repo: Repo) -> List[ClassInfo]:
    return sorted(repo.subclasses_of(SR_MOD, "SimpleRepr"), key=lambda c: c.fq)


def init_of(repo: Repo, ci: ClassInfo) -> Optional[FuncInfo]:
    return repo.lookup_method(ci, "__init__")


def positional_params(f: FuncInfo) -> List[str]:
    """what utils.various.func_args(self.__init__) returns minus self:
    co_varnames[:co_argcount] = positional-or-keyword parameters."""
    return f.params[1:] if f else []


def stored_fields(repo: Repo, ci: ClassInfo) -> Dict[str, List[Tuple[FuncInfo, ast.AST]]]:
    """field -> [(method, assignment node)] for every `self.f = ...` (also
    tuple targets) in any method along the MRO, plus class attributes and
    properties."""
    out: Dict[str, List[Tuple[FuncInfo, ast.AST]]] = {}
    for k in repo.mro(ci):
        for m in k.methods.values():
            for n in walk_no_nested(m.node):
                tgts = []
                if isinstance(n, ast.Assign):
                    tgts = n.targets
                elif isinstance(n, (ast.AnnAssign, ast.AugAssign)):
                    tgts = [n.target]
                for t in tgts:
                    for e in (t.elts if isinstance(t, (ast.Tuple, ast.List)) else [t]):
                        if is_self_attr(e):
                            out.setdefault(e.attr, []).append((m, n))
            if m.is_property():
                out.setdefault(m.name, []).append((m, m.node))
        for a, v in k.class_attrs.items():
            out.setdefault(a, []).append((None, v))
    return out


def repr_method(repo: Repo, ci: ClassInfo, name: str) -> Optional[FuncInfo]:
    m = repo.lookup_method(ci, name)
    if m is None or (m.cls.name == "SimpleRepr" and m.module.name == SR_MOD):
        return None
    return m


def calls_super_repr(m: FuncInfo, name: str) -> bool:
    for c in walk_no_nested(m.node):
        if isinstance(c, ast.Call) and isinstance(c.func, ast.Attribute) and c.func.attr == name:
            v = c.func.value
            if isinstance(v, ast.Call) and call_name(v) == "super":
                return True
            if isinstance(v, ast.Name) and v.id in ("SimpleRepr",):
                return True
    return False


def dict_var_keys_written(m: FuncInfo) -> Tuple[Set[str], Set[str], bool]:
    """(keys written, keys popped/deleted, uses_super) for a _simple_repr-like
    method building a dict in a local variable that it returns."""
    written, removed = set(), set()
    for n in walk_no_nested(m.node):
        if isinstance(n, ast.Dict):
            for k in n.keys:
                if isinstance(k, ast.Constant) and isinstance(k.value, str):
                    written.add(k.value)
        if isinstance(n, ast.Assign):
            for t in n.targets:
                if isinstance(t, ast.Subscript) and isinstance(t.value, ast.Name) and isinstance(t.slice, ast.Constant):
                    written.add(t.slice.value)
        if isinstance(n, ast.Call) and isinstance(n.func, ast.Attribute) and n.func.attr == "pop" and n.args \
                and isinstance(n.args[0], ast.Constant) and isinstance(n.func.value, ast.Name):
            removed.add(n.args[0].value)
        if isinstance(n, ast.Delete):
            for t in n.targets:
                if isinstance(t, ast.Subscript) and isinstance(t.slice, ast.Constant):
                    removed.add(t.slice.value)
    return written - META_KEYS, removed, calls_super_repr(m, "_simple_repr")


def keys_read(m: FuncInfo, rname: str) -> Tuple[Set[str], bool]:
    """(constant keys read from dict param `rname`, has generic remainder i.e.
    iterates rname.items())."""
    keys = set()
    generic = False
    for n in walk_no_nested(m.node):
        if isinstance(n, ast.Subscript) and isinstance(n.value, ast.Name) and n.value.id == rname \
                and isinstance(n.slice, ast.Constant) and isinstance(n.slice.value, str):
            keys.add(n.slice.value)
        if isinstance(n, ast.Compare) and len(n.ops) == 1 and isinstance(n.ops[0], (ast.In, ast.NotIn)) \
                and isinstance(n.left, ast.Constant) and isinstance(n.comparators[0], ast.Name) and n.comparators[0].id == rname:
            keys.add(n.left.value)
        if isinstance(n, ast.Call) and isinstance(n.func, ast.Attribute) and isinstance(n.func.value, ast.Name) \
                and n.func.value.id == rname:
            if n.func.attr == "items":
                generic = True
            if n.func.attr in ("pop", "get") and n.args and isinstance(n.args[0], ast.Constant):
                keys.add(n.args[0].value)
    return keys - META_KEYS, generic


def property_field(repo: Repo, ci: ClassInfo, attr: str) -> Optional[str]:
    """self.<attr> -> the underlying field name: attr itself when it is a
    stored field, or `_f` when attr is a property whose every return is
    `self._f`."""
    m = repo.lookup_method(ci, attr)
    if m is not None and m.is_property():
        rets = [r for r in walk_no_nested(m.node) if isinstance(r, ast.Return) and r.value is not None]
        fields = {r.value.attr for r in rets if is_self_attr(r.value)}
        if len(fields) == 1 and len(rets) >= 1:
            # tolerate guards like `if self._x is None: return dict()`
            return fields.pop()
        return None
    return attr


def field_params(repo: Repo, ci: ClassInfo, field: str, depth: int = 0) -> Set[str]:
    """The constructor parameters of `ci` from which self.<field> is derived on
    some path of the constructor (direct stores, stores through a property
    setter, and stores made by a base constructor reached via super().__init__)."""
    init = repo.lookup_method(ci, "__init__")
    out: Set[str] = set()
    if init is None or depth > 4:
        return out
    owner = init.cls
    params = set(init.params[1:]) | set(init.kwonly)
    if init.node.args.kwarg:
        params.add(init.node.args.kwarg.arg)
    # properties with a setter that stores into `field`
    setter_names = set()
    for k in repo.mro(owner):
        for mname, m in k.methods.items():
            if mname.endswith(".setter"):
                for n in walk_no_nested(m.node):
                    if isinstance(n, ast.Assign) and any(is_self_attr(t, field) for t in n.targets):
                        setter_names.add(m.name)
    for n in walk_no_nested(init.node):
        if isinstance(n, (ast.Assign, ast.AnnAssign)):
            tgts = n.targets if isinstance(n, ast.Assign) else [n.target]
            for t in tgts:
                for e in (t.elts if isinstance(t, (ast.Tuple, ast.List)) else [t]):
                    if is_self_attr(e, field) or (is_self_attr(e) and e.attr in setter_names):
                        v = n.value
                        if v is None:
                            continue
                        if isinstance(t, (ast.Tuple, ast.List)) and isinstance(v, (ast.Tuple, ast.List)):
                            v = v.elts[list(t.elts).index(e)]
                        out |= {x.id for x in ast.walk(v) if isinstance(x, ast.Name) and x.id in params}
    # through super().__init__(...) / Base.__init__(self, ...)
    for c in walk_no_nested(init.node):
        if isinstance(c, ast.Call) and isinstance(c.func, ast.Attribute) and c.func.attr == "__init__":
            v = c.func.value
            base = None
            args = []
            if isinstance(v, ast.Call) and call_name(v) == "super":
                m = repo.lookup_method_after(ci, owner, "__init__")
                base = m.cls if m else None
                args = list(c.args)
            elif isinstance(v, ast.Name):
                b = repo.resolve_name(init.module, v.id)
                base = b if isinstance(b, ClassInfo) else None
                args = list(c.args)[1:]
            if base is None:
                continue
            binit = repo.lookup_method(base, "__init__")
            if binit is None:
                continue
            bparams = binit.params[1:]
            for bp in field_params(repo, base, field, depth + 1):
                expr = None
                for k in c.keywords:
                    if k.arg == bp:
                        expr = k.value
                if expr is None and bp in bparams and bparams.index(bp) < len(args):
                    expr = args[bparams.index(bp)]
                if expr is not None:
                    out |= {x.id for x in ast.walk(expr) if isinstance(x, ast.Name) and x.id in params}
    return out


def field_param(repo: Repo, ci: ClassInfo, field: str) -> Optional[str]:
    ps = field_params(repo, ci, field)
    return next(iter(ps)) if len(ps) == 1 else None


def bind_call(call: ast.Call, params: List[str], n_required: int, has_vararg: bool, has_varkw: bool,
              kwonly: List[str] = ()) -> Optional[str]:
    """None when the call binds the signature, else a reason."""
    if any(isinstance(a, ast.Starred) for a in call.args) or any(k.arg is None for k in call.keywords):
        return None  # dynamic: cannot decide
    npos = len(call.args)
    if npos > len(params) and not has_vararg:
        return f"{npos} positional arguments for {len(params)} parameters"
    bound = set(params[:npos])
    for k in call.keywords:
        if k.arg in bound:
            return f"parameter {k.arg} bound twice"
        if k.arg not in params and k.arg not in kwonly and not has_varkw:
            return f"unknown keyword {k.arg}"
        bound.add(k.arg)
    missing = [p for p in params[:n_required] if p not in bound]
    if missing:
        return f"missing required argument(s) {missing}"
    return None


_REORDER = {"sorted", "reversed", "set", "frozenset"}


def _order_of(e, local, depth=0):
    """(dict text, side, order token) for an expression enumerating the keys or the values of a dict; order token is the
    dict text itself for the dict's own order, or the text of the re-ordering expression"""
    if depth > 4:
        return None
    if isinstance(e, ast.Name) and e.id in local:
        return _order_of(local[e.id], local, depth + 1)
    if isinstance(e, ast.Call) and isinstance(e.func, ast.Name) and e.func.id in ("list", "tuple") and len(e.args) == 1:
        return _order_of(e.args[0], local, depth + 1)
    if isinstance(e, ast.Call) and isinstance(e.func, ast.Name) and e.func.id in _REORDER and e.args:
        inner = _order_of(e.args[0], local, depth + 1)
        if inner:
            return inner[0], inner[1], norm(e)
        return None
    if isinstance(e, ast.Call) and isinstance(e.func, ast.Attribute) and e.func.attr in ("keys", "values") and not e.args:
        d = norm(e.func.value)
        return d, e.func.attr, d
    if isinstance(e, ast.ListComp) and len(e.generators) == 1 and not e.generators[0].ifs and isinstance(e.generators[0].target, ast.Name):
        v = e.generators[0].target.id
        src = _order_of(e.generators[0].iter, local, depth + 1)
        if src and src[1] == "keys":
            if isinstance(e.elt, ast.Subscript) and norm(e.elt.value) == src[0] and norm(e.elt.slice) == v:
                return src[0], "values", src[2]
            if norm(e.elt) == v:
                return src[0], "keys", src[2]
        return None
    if isinstance(e, ast.Attribute) and isinstance(e.value, ast.Name) and e.value.id == "self":
        return norm(e), "keys", norm(e)
    return None


def check_parallel_lists(ctx, rule, funcs):
    """A mapping sent as two parallel lists (keys / values, re-zipped by the reader) must enumerate both sides in the same
    order: one traversal (`zip(*D.items())`), or D's own order on both sides, or the same re-ordered key list on both sides."""
    n = 0
    for f in funcs:
        local = {}
        for a in ast.walk(f.node):
            if isinstance(a, ast.Assign) and len(a.targets) == 1 and isinstance(a.targets[0], ast.Name):
                local.setdefault(a.targets[0].id, a.value)
        for a in ast.walk(f.node):
            if isinstance(a, ast.Assign) and isinstance(a.targets[0], ast.Tuple) and len(a.targets[0].elts) == 2 and isinstance(a.value, ast.Call) and isinstance(a.value.func, ast.Name) \
                    and a.value.func.id == "zip" and len(a.value.args) == 1 and isinstance(a.value.args[0], ast.Starred):
                inner = a.value.args[0].value
                if isinstance(inner, ast.Call) and isinstance(inner.func, ast.Attribute) and inner.func.attr == "items":
                    n += 1
                    ctx.ok(rule, f"{f.qualname}: keys and values of `{norm(inner.func.value)}` come from one traversal", f, a)
        stores = {}
        for a in ast.walk(f.node):
            if isinstance(a, ast.Assign) and isinstance(a.targets[0], ast.Subscript) and isinstance(a.targets[0].slice, ast.Constant):
                o = _order_of(a.value, local)
                if o:
                    stores.setdefault(o[0], []).append((a, o))
        for d, lst in stores.items():
            sides = {o[1] for _, o in lst}
            if not ({"keys", "values"} <= sides):
                continue
            n += 1
            orders = {o[2] for _, o in lst}
            bad = next((a for a, o in lst if o[2] != d), lst[0][0])
            ctx.check(len(orders) == 1, rule, f"{f.qualname}: keys and values of `{d}` are listed in the same order", f, bad,
                      f"the reader pairs the two lists position by position; here they follow {sorted(orders)}: every value is attached to another key")
    return n


def _repr_keys_in(e, local, rname, depth=0):
    """keys of the repr dict `rname` an expression is derived from (through locals, comprehensions, list()/tuple())"""
    out = set()
    for n in ast.walk(e):
        if isinstance(n, ast.Subscript) and isinstance(n.value, ast.Name) and n.value.id == rname and isinstance(n.slice, ast.Constant):
            out.add(n.slice.value)
        elif isinstance(n, ast.Name) and n.id in local and depth < 3:
            out |= _repr_keys_in(local[n.id], local, rname, depth + 1)
    return out


def check_zipped_pairs(ctx, rule, cls_list, min_pairs=1):
    """Reader-driven: whenever a decoder zips two keys of the repr back into a mapping, the encoder of the same class must have
    written those two keys in the same order (one traversal, the dict's own order twice, or one re-ordered key list used for both)."""
    n = 0
    for ci in cls_list:
        enc, dec = ci.methods.get("_simple_repr"), ci.methods.get("_from_repr")
        if enc is None or dec is None:
            continue
        rname = dec.params[1] if len(dec.params) > 1 else "r"
        dlocal = {a.targets[0].id: a.value for a in ast.walk(dec.node) if isinstance(a, ast.Assign) and len(a.targets) == 1 and isinstance(a.targets[0], ast.Name)}
        pairs = []
        for z in ast.walk(dec.node):
            if isinstance(z, ast.Call) and isinstance(z.func, ast.Name) and z.func.id == "zip" and len(z.args) == 2:
                ka, kb = _repr_keys_in(z.args[0], dlocal, rname), _repr_keys_in(z.args[1], dlocal, rname)
                if len(ka) == 1 and len(kb) == 1:
                    pairs.append((next(iter(ka)), next(iter(kb)), z))
        if not pairs:
            continue
        elocal = {}
        unpacked = {}
        for a in ast.walk(enc.node):
            if isinstance(a, ast.Assign) and len(a.targets) == 1 and isinstance(a.targets[0], ast.Name):
                elocal.setdefault(a.targets[0].id, a.value)
            if isinstance(a, ast.Assign) and isinstance(a.targets[0], ast.Tuple) and len(a.targets[0].elts) == 2 and isinstance(a.value, ast.Call) and isinstance(a.value.func, ast.Name) \
                    and a.value.func.id == "zip" and len(a.value.args) == 1 and isinstance(a.value.args[0], ast.Starred) and isinstance(a.value.args[0].value, ast.Call) \
                    and isinstance(a.value.args[0].value.func, ast.Attribute) and a.value.args[0].value.func.attr == "items":
                d = norm(a.value.args[0].value.func.value)
                for e_, side in zip(a.targets[0].elts, ("keys", "values")):
                    if isinstance(e_, ast.Name):
                        unpacked[e_.id] = (d, side, "zip:" + d)
        for ka, kb, z in pairs:
            n += 1
            orders = []
            site = enc.node
            for key in (ka, kb):
                st = [a for a in ast.walk(enc.node) if isinstance(a, ast.Assign) and isinstance(a.targets[0], ast.Subscript) and isinstance(a.targets[0].slice, ast.Constant)
                      and a.targets[0].slice.value == key and not (isinstance(a.value, (ast.List, ast.Call)) and norm(a.value) in ("[]", "list()"))]
                o = None
                if len(st) == 1:
                    site = st[0]
                    v = st[0].value
                    o = unpacked.get(v.id) if isinstance(v, ast.Name) and v.id in unpacked else _order_of(v, elocal)
                orders.append(o)
            ok = all(o is not None for o in orders) and orders[0][0] == orders[1][0] and {orders[0][1], orders[1][1]} == {"keys", "values"} and orders[0][2] == orders[1][2]
            ctx.check(ok, rule, f"{ci.name}: `{ka}` and `{kb}` (zipped by the decoder) are written in the same order", enc, site,
                      f"the decoder rebuilds the mapping with zip(r['{ka}'], r['{kb}']): the encoder must list keys and values of one dict in one order; found "
                      f"{[(o[1], o[2]) if o else None for o in orders]}")
    if n < min_pairs:
        ctx.defer(f"{rule}: only {n} decoder(s) zipping two repr keys found (expected >= {min_pairs})")
    return n
