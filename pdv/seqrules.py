"""Symbolic value of a list built by straight-line code inside one block (typically a loop body): what sequence does a name hold at a
given statement, whichever way it was built - display, `+` of lists, append / extend / `+=`, an accumulation loop (with the filter written as
`if`, or as `try: .. D[k] .. except KeyError: pass`), a comprehension, a comprehension over another such list.

A sequence is a list of segments:
  ("elem", text)                              one element
  ("map", elem text, source text, conds)      `elem` for every `$v` of `source` satisfying all `conds` (texts over `$v`), in source order
The loop / comprehension variable is written `$v` in the texts, so two builds are compared independently of variable names."""
import ast
import copy
from typing import List, Optional

from .model import norm

Seg = tuple


class _Ren(ast.NodeTransformer):
    def __init__(self, mapping):
        self.mapping = mapping

    def visit_Name(self, node):
        if node.id in self.mapping:
            return ast.copy_location(copy.deepcopy(self.mapping[node.id]), node)
        return node


def _text(e, var: Optional[str]) -> str:
    if var is None:
        return norm(e)
    return norm(_Ren({var: ast.Name(id="$v", ctx=ast.Load())}).visit(copy.deepcopy(e)))


def _subst_text(e, var: str, repl_text: str) -> str:
    """text of e with `var` replaced by the expression whose text is repl_text"""
    try:
        r = ast.parse(repl_text.replace("$v", "__pdv_v__"), mode="eval").body
    except SyntaxError:
        return "?"
    return norm(_Ren({var: r}).visit(copy.deepcopy(e))).replace("__pdv_v__", "$v")


def seq_of(expr, block: List[ast.stmt], upto: ast.stmt, depth: int = 0) -> Optional[List[Seg]]:
    """the sequence `expr` denotes just before statement `upto` of `block` (None when it cannot be established)"""
    if depth > 6:
        return None
    if isinstance(expr, (ast.List, ast.Tuple)):
        if any(isinstance(e, ast.Starred) for e in expr.elts):
            return None
        return [("elem", norm(e)) for e in expr.elts]
    if isinstance(expr, ast.BinOp) and isinstance(expr.op, ast.Add):
        a, b = seq_of(expr.left, block, upto, depth + 1), seq_of(expr.right, block, upto, depth + 1)
        return None if a is None or b is None else a + b
    if isinstance(expr, ast.Call) and isinstance(expr.func, ast.Name) and expr.func.id == "list" and len(expr.args) == 1 and not expr.keywords:
        return seq_of(expr.args[0], block, upto, depth + 1)
    if isinstance(expr, (ast.ListComp, ast.GeneratorExp)) and len(expr.generators) == 1 and isinstance(expr.generators[0].target, ast.Name):
        g = expr.generators[0]
        v = g.target.id
        conds = frozenset(_text(c, v) for c in g.ifs)
        if isinstance(g.iter, ast.Name):
            src = seq_of(g.iter, block, upto, depth + 1)
            if src is not None:
                out = []
                for s in src:
                    if s[0] == "map":
                        out.append(("map", _subst_text(expr.elt, v, s[1]), s[2], s[3] | frozenset(_subst_text(c, v, s[1]) for c in g.ifs)))
                    elif not g.ifs:
                        out.append(("elem", _subst_text(expr.elt, v, s[1])))
                    else:
                        return None
                return out
        return [("map", _text(expr.elt, v), norm(g.iter), conds)]
    if isinstance(expr, ast.Name):
        return _name_seq(expr.id, block, upto, depth)
    return None


def _name_seq(name: str, block, upto, depth) -> Optional[List[Seg]]:
    if upto not in block:
        return None
    before = block[:block.index(upto)]
    cur = None
    for st in before:
        mentions = any(isinstance(n, ast.Name) and n.id == name for n in ast.walk(st))
        if not mentions:
            continue
        if isinstance(st, ast.Assign) and len(st.targets) == 1 and isinstance(st.targets[0], ast.Name) and st.targets[0].id == name:
            cur = seq_of(st.value, block, st, depth + 1)
            if cur is None:
                return None
            continue
        if cur is None:
            return None   # used before being built in this block: not a fresh list
        if isinstance(st, ast.Expr) and isinstance(st.value, ast.Call) and isinstance(st.value.func, ast.Attribute) and norm(st.value.func.value) == name and len(st.value.args) == 1:
            if st.value.func.attr == "append":
                cur = cur + [("elem", norm(st.value.args[0]))]
                continue
            if st.value.func.attr == "extend":
                more = seq_of(st.value.args[0], block, st, depth + 1)
                if more is None:
                    return None
                cur = cur + more
                continue
        if isinstance(st, ast.AugAssign) and isinstance(st.op, ast.Add) and norm(st.target) == name:
            more = seq_of(st.value, block, st, depth + 1)
            if more is None:
                return None
            cur = cur + more
            continue
        if isinstance(st, ast.For) and isinstance(st.target, ast.Name) and not st.orelse:
            seg = _loop_appends(name, st)
            if seg is None:
                return None
            cur = cur + seg
            continue
        # a plain read (log, argument) does not change the list; anything else is unknown
        if any(isinstance(n, (ast.Subscript, ast.Attribute)) and isinstance(getattr(n, "ctx", None), (ast.Store, ast.Del)) and norm(n.value) == name for n in ast.walk(st)) \
                or any(isinstance(n, ast.Call) and isinstance(n.func, ast.Attribute) and norm(n.func.value) == name and n.func.attr in ("pop", "remove", "insert", "clear", "sort", "reverse") for n in ast.walk(st)) \
                or any(isinstance(n, ast.Name) and n.id == name and isinstance(n.ctx, ast.Store) for n in ast.walk(st)):
            return None
    return cur


def _loop_appends(name: str, loop: ast.For) -> Optional[List[Seg]]:
    """segments contributed by `for v in S:` to the list `name`: each `name.append(E)` under its conditions"""
    v = loop.target.id
    out = []

    def walk(stmts, conds):
        for st in stmts:
            if isinstance(st, ast.If):
                if walk(st.body, conds | {_text(st.test, v)}) is False:
                    return False
                if st.orelse:
                    from .normalise import _negate
                    if walk(st.orelse, conds | {_text(_negate(copy.deepcopy(st.test)), v)}) is False:
                        return False
                continue
            if isinstance(st, ast.Try):
                # `except KeyError: pass`: a statement of the body runs iff no earlier (or own) dict lookup D[k] failed, i.e. k in D for each of them
                ok_h = len(st.handlers) == 1 and norm(st.handlers[0].type) == "KeyError" and all(isinstance(x, ast.Pass) for x in st.handlers[0].body) and not st.orelse and not st.finalbody
                if not ok_h:
                    if any(isinstance(n, ast.Name) and n.id == name for n in ast.walk(st)):
                        return False
                    continue
                c2 = set(conds)
                for s2 in st.body:
                    for n in ast.walk(s2):
                        if isinstance(n, ast.Subscript) and isinstance(n.ctx, ast.Load) and isinstance(n.value, ast.Name):
                            c2.add(f"{_text(n.slice, v)} in {norm(n.value)}")
                    if walk([s2], frozenset(c2)) is False:
                        return False
                continue
            if isinstance(st, ast.Expr) and isinstance(st.value, ast.Call) and isinstance(st.value.func, ast.Attribute) and norm(st.value.func.value) == name:
                if st.value.func.attr == "append" and len(st.value.args) == 1:
                    out.append(("map", _text(st.value.args[0], v), norm(loop.iter), frozenset(conds)))
                    continue
                return False
            if isinstance(st, (ast.For, ast.While, ast.With)) and any(isinstance(n, ast.Name) and n.id == name for n in ast.walk(st)):
                return False
            if isinstance(st, (ast.Continue, ast.Break, ast.Return)):
                return False
            if any(isinstance(n, ast.Name) and n.id == name and isinstance(n.ctx, ast.Store) for n in ast.walk(st)):
                return False
        return True
    if walk(loop.body, frozenset()) is False:
        return None
    return out
