"""Stale loop variables: a name bound only as the target of a `for` statement and read after that loop has ended (in a
later statement of the enclosing block, or anywhere later in the function) holds the value of the *last* iteration (or is
unbound when the loop did not run).  Reading it there is almost always a slip for another name (e.g. the key variable of
a following comprehension).
"""
import ast

from .model import walk_no_nested, norm


def _targets(t):
    return {n.id for n in ast.walk(t) if isinstance(n, ast.Name)}


def stale_loop_reads(func_node):
    """(loop, read Name node) for every read of a for-target after the loop, when the name has no other binding in the function
    (parameters, assignments, other loops / comprehensions / with / except / imports that bind it before the read)"""
    res = []
    params = {a.arg for a in func_node.args.posonlyargs + func_node.args.args + func_node.args.kwonlyargs}
    if func_node.args.vararg:
        params.add(func_node.args.vararg.arg)
    if func_node.args.kwarg:
        params.add(func_node.args.kwarg.arg)
    # all binding sites per name
    binds = {}
    for x in walk_no_nested(func_node):
        if isinstance(x, (ast.For, ast.AsyncFor)):
            for n in _targets(x.target):
                binds.setdefault(n, []).append(("for", x))
        elif isinstance(x, ast.Assign):
            for t in x.targets:
                for n in ast.walk(t):
                    if isinstance(n, ast.Name) and isinstance(n.ctx, ast.Store):
                        binds.setdefault(n.id, []).append(("assign", x))
        elif isinstance(x, (ast.AugAssign, ast.AnnAssign)) and isinstance(x.target, ast.Name):
            binds.setdefault(x.target.id, []).append(("assign", x))
        elif isinstance(x, ast.NamedExpr):
            binds.setdefault(x.target.id, []).append(("assign", x))
        elif isinstance(x, (ast.With, ast.AsyncWith)):
            for it in x.items:
                if it.optional_vars is not None:
                    for n in _targets(it.optional_vars):
                        binds.setdefault(n, []).append(("with", x))
        elif isinstance(x, ast.ExceptHandler) and x.name:
            binds.setdefault(x.name, []).append(("except", x))
        elif isinstance(x, (ast.Import, ast.ImportFrom)):
            for a in x.names:
                binds.setdefault((a.asname or a.name).split(".")[0], []).append(("import", x))
        elif isinstance(x, (ast.FunctionDef, ast.ClassDef)) and x is not func_node:
            binds.setdefault(x.name, []).append(("def", x))
    for name, bs in binds.items():
        if name in params or any(k != "for" for k, _ in bs):
            continue
        loops = [x for _, x in bs]
        for x in ast.walk(func_node):
            if not (isinstance(x, ast.Name) and x.id == name and isinstance(x.ctx, ast.Load)):
                continue
            if any(any(n is x for n in ast.walk(l)) for l in loops):
                continue
            # a comprehension / lambda / nested def that binds the name itself shadows it
            shadow = False
            for c in ast.walk(func_node):
                if isinstance(c, (ast.ListComp, ast.SetComp, ast.DictComp, ast.GeneratorExp)) and any(n is x for n in ast.walk(c)):
                    if any(name in _targets(g.target) for g in c.generators):
                        shadow = True
                elif isinstance(c, ast.Lambda) and any(n is x for n in ast.walk(c)) and name in {a.arg for a in c.args.args}:
                    shadow = True
                elif isinstance(c, (ast.FunctionDef, ast.AsyncFunctionDef)) and c is not func_node and any(n is x for n in ast.walk(c)):
                    shadow = True
            if shadow:
                continue
            before = [l for l in loops if l.end_lineno < x.lineno]
            if before:
                res.append((before[-1], x))
    return res
