"""Reader side of the pseudo-tree link table: what get_dfs_relations does with a link of each kind.

The function is executed by cases (facts.exec_under): for every link kind K and for `link.source == <node>.name` true / false the tests of
the loop body are decided and the statements that run are collected.  The result is a table kind -> the local that receives
`link.target` (by append or by assignment), independent of how the dispatch is written (if-chain, elif, guard + continue, dict of lists)."""
import ast
from typing import Dict, Optional, Tuple

from .model import norm, walk_no_nested
from .facts import exec_under

KINDS4 = ("parent", "pseudo_parent", "children", "pseudo_children")


def _dict_display(func_node, expr) -> Optional[Dict[str, str]]:
    """the constant -> local table an expression denotes: a dict display, or a local bound once to one and never modified"""
    name = None
    if isinstance(expr, ast.Name):
        name = expr.id
        asg = [s for s in walk_no_nested(func_node) if isinstance(s, ast.Assign) and len(s.targets) == 1 and isinstance(s.targets[0], ast.Name) and s.targets[0].id == name]
        if len(asg) != 1:
            return None
        expr = asg[0].value
    if not isinstance(expr, ast.Dict):
        return None
    d = {}
    for k, v in zip(expr.keys, expr.values):
        if not (isinstance(k, ast.Constant) and isinstance(k.value, str) and isinstance(v, ast.Name)):
            return None
        d[k.value] = v.id
    # the table must not be modified afterwards
    for n in ast.walk(func_node):
        if name is not None and isinstance(n, ast.Subscript) and isinstance(n.ctx, (ast.Store, ast.Del)) and norm(n.value) == name:
            return None
    return d


def dfs_reader_table(gr_node) -> Tuple[Optional[Dict[str, Tuple[str, str]]], list, str]:
    """-> ({kind: (how, local)} for the kinds that have an effect on own links, names returned, diagnostic).
    None when the function cannot be decided (diagnostic says why)."""
    param = gr_node.args.args[0].arg if gr_node.args.args else None
    loops = [s for s in gr_node.body if isinstance(s, ast.For) and norm(s.iter) == f"{param}.links" and isinstance(s.target, ast.Name)]
    if len(loops) != 1 or loops[0].orelse:
        return None, [], "exactly one loop over the node's links expected"
    lp = loops[0]
    lv = lp.target.id
    rets = [s for s in walk_no_nested(gr_node) if isinstance(s, ast.Return)]
    if len(rets) != 1 or not isinstance(rets[0].value, ast.Tuple) or not all(isinstance(e, ast.Name) for e in rets[0].value.elts) or gr_node.body[-1] is not rets[0]:
        return None, [], "a single final `return (a, b, c, d)` of locals expected"
    returned = [e.id for e in rets[0].value.elts]

    def effects(kind, own):
        def atom(e):
            if isinstance(e, ast.Compare) and len(e.ops) == 1:
                l, r, op = norm(e.left), e.comparators[0], e.ops[0]
                if isinstance(op, (ast.Eq, ast.NotEq)):
                    a, b = norm(e.left), norm(r)
                    v = None
                    for x, y in ((a, r), (b, e.left)):
                        if x == f"{lv}.type" and isinstance(y, ast.Constant):
                            v = kind == y.value
                    if {a, b} == {f"{lv}.source", f"{param}.name"}:
                        v = own
                    if v is None:
                        return None
                    return v if isinstance(op, ast.Eq) else not v
                if isinstance(op, (ast.In, ast.NotIn)) and l == f"{lv}.type":
                    keys = None
                    if isinstance(r, (ast.Tuple, ast.List, ast.Set)) and all(isinstance(x, ast.Constant) for x in r.elts):
                        keys = {x.value for x in r.elts}
                    elif isinstance(r, (ast.Name, ast.Dict)):
                        d = _dict_display(gr_node, r)
                        keys = set(d) if d is not None else None
                    if keys is None:
                        return None
                    return (kind in keys) if isinstance(op, ast.In) else (kind not in keys)
            return None
        eff, k = exec_under(lp.body, atom)
        if k not in ("fall", "continue"):
            return None
        out = []
        for st in eff:
            if isinstance(st, ast.Assign) and len(st.targets) == 1 and isinstance(st.targets[0], ast.Name) and norm(st.value) == f"{lv}.target":
                out.append(("assign", st.targets[0].id))
                continue
            if isinstance(st, ast.Expr) and isinstance(st.value, ast.Call) and isinstance(st.value.func, ast.Attribute) and st.value.func.attr == "append" and len(st.value.args) == 1 and norm(st.value.args[0]) == f"{lv}.target":
                tgt = st.value.func.value
                if isinstance(tgt, ast.Name):
                    out.append(("append", tgt.id))
                    continue
                if isinstance(tgt, ast.Subscript) and isinstance(tgt.value, (ast.Name, ast.Dict)) and norm(tgt.slice) == f"{lv}.type":
                    d = _dict_display(gr_node, tgt.value)
                    if d is not None and kind in d:
                        out.append(("append", d[kind]))
                        continue
            if isinstance(st, ast.Expr) and isinstance(st.value, ast.Call) and norm(st.value.func).split(".")[0] in ("logger", "logging", "print"):
                continue
            return None
        return out
    table = {}
    for kind in KINDS4 + ("<other>",):
        e_own, e_foreign = effects(kind, True), effects(kind, False)
        if e_own is None or e_foreign is None:
            return None, returned, f"the treatment of a '{kind}' link cannot be decided"
        if e_foreign:
            return None, returned, f"a '{kind}' link whose source is another node has an effect"
        if len(e_own) > 1:
            return None, returned, f"a '{kind}' link has several effects {e_own}"
        if e_own:
            table[kind] = e_own[0]
    return table, returned, ""


def reader_ok(gr_node) -> Tuple[bool, str, set]:
    """the reader returns (parent, pseudo_parents, children, pseudo_children): slot i receives the targets of the own links of kind i"""
    table, returned, why = dfs_reader_table(gr_node)
    if table is None:
        return False, why, set()
    if len(returned) != 4 or len(set(returned)) != 4:
        return False, f"returns {returned}", set(table)
    for i, kind in enumerate(KINDS4):
        want = ("assign" if kind == "parent" else "append", returned[i])
        if table.get(kind) != want:
            return False, f"'{kind}' links: {table.get(kind)} instead of {want}", set(table)
    if "<other>" in table:
        return False, "links of an unknown kind have an effect", set(table)
    # the lists start empty, the parent starts as None
    for i, kind in enumerate(KINDS4):
        init = [s for s in gr_node.body if isinstance(s, ast.Assign) and len(s.targets) == 1 and norm(s.targets[0]) == returned[i]]
        if len(init) != 1 or norm(init[0].value) != ("None" if kind == "parent" else "[]"):
            return False, f"`{returned[i]}` must start as {'None' if kind == 'parent' else 'an empty list'}", set(table)
    return True, "", set(table)
