"""Generic guarded-effect helpers shared by several property checks.

field_writes(repo, cls, field)  every store to self.<field> in the class (own
                               methods), with the dominating atomic facts
calls_to(func, name)            every self.<name>(...) call of a function with
                               its dominating facts
resolve_flag(func, name)        what must hold when a local boolean flag is true
                               (its non-False definitions and their guards)
"""
import ast
from typing import List, Tuple, Optional

from .model import walk_no_nested, norm, is_self_attr, is_self_call, FuncInfo, ClassInfo
from .facts import FuncFacts, facts_at, conjuncts


class Write:
    __slots__ = ("func", "stmt", "kind", "value", "facts", "ff")

    def __init__(self, func, stmt, kind, value, facts, ff):
        self.func = func
        self.stmt = stmt
        self.kind = kind      # 'assign' | 'aug' | 'call:<method>' | 'del'
        self.value = value    # rhs expr / call node
        self.facts = facts    # set of (text, polarity)
        self.ff = ff

    def has(self, text, pol=True):
        return (text, pol) in self.facts

    def __repr__(self):
        return f"<Write {self.func.qualname} {self.kind} {norm(self.stmt)[:60]}>"


_MUTATORS = ("append", "add", "pop", "popleft", "remove", "clear", "insert", "extend", "update", "discard", "setdefault", "sort", "reverse")


def fact_set(ff: FuncFacts, node):
    return {(norm(t), p) for t, p in facts_at(ff, node)}


def field_writes(cls: ClassInfo, field: str, containers: bool = False) -> List[Write]:
    out = []
    for f in cls.methods.values():
        ff = None
        for n in ast.walk(f.node):
            hit = None
            if isinstance(n, ast.Assign):
                for t in n.targets:
                    for tt in (t.elts if isinstance(t, ast.Tuple) else [t]):
                        if is_self_attr(tt, field):
                            hit = ("assign", n.value)
                        elif containers and isinstance(tt, ast.Subscript) and is_self_attr(tt.value, field):
                            hit = ("setitem", n.value)
            elif isinstance(n, ast.AugAssign):
                if is_self_attr(n.target, field):
                    hit = ("aug", n.value)
            elif isinstance(n, ast.AnnAssign):
                if is_self_attr(n.target, field) and n.value is not None:
                    hit = ("assign", n.value)
            elif containers and isinstance(n, ast.Expr) and isinstance(n.value, ast.Call) and isinstance(n.value.func, ast.Attribute) \
                    and is_self_attr(n.value.func.value, field) and n.value.func.attr in _MUTATORS:
                hit = ("call:" + n.value.func.attr, n.value)
            elif containers and isinstance(n, ast.Delete):
                for t in n.targets:
                    if isinstance(t, ast.Subscript) and is_self_attr(t.value, field):
                        hit = ("del", None)
            if hit:
                if ff is None:
                    ff = FuncFacts(f.node)
                out.append(Write(f, n, hit[0], hit[1], fact_set(ff, n), ff))
    return out


def self_calls(f: FuncInfo, name: str) -> List[Tuple[ast.Call, set, FuncFacts]]:
    ff = FuncFacts(f.node)
    out = []
    for c in ast.walk(f.node):
        if isinstance(c, ast.Call) and is_self_call(c, name):
            out.append((c, fact_set(ff, c), ff))
    return out


def class_self_calls(cls: ClassInfo, name: str):
    out = []
    for f in cls.methods.values():
        for c, facts, ff in self_calls(f, name):
            out.append((f, c, facts, ff))
    return out


def flag_conditions(f: FuncInfo, flag: str) -> Optional[List[Tuple[ast.stmt, ast.AST, set]]]:
    """For a local boolean `flag`: the assignments that can make it true, each
    with its value expression and the facts dominating it.  Assignments of the
    constant False are ignored.  None when the flag is not a plain local."""
    ff = FuncFacts(f.node)
    defs = []
    for n in walk_no_nested(f.node):
        if isinstance(n, ast.Assign) and any(isinstance(t, ast.Name) and t.id == flag for t in n.targets):
            if isinstance(n.value, ast.Constant) and n.value.value in (False, None, 0):
                continue
            defs.append((n, n.value, fact_set(ff, n)))
        elif isinstance(n, (ast.AugAssign, ast.AnnAssign)) and isinstance(n.target, ast.Name) and n.target.id == flag:
            return None
    if flag in f.params:
        return None
    return defs


def implied_facts(f: FuncInfo, node, ff: FuncFacts = None) -> set:
    """Facts dominating `node`, where a guard that is a bare local flag is
    expanded into what each of its truthy definitions implies (intersection
    over the definitions: what holds whichever definition made it true)."""
    ff = ff or FuncFacts(f.node)
    facts = fact_set(ff, node)
    extra = set()
    for text, pol in list(facts):
        if pol and text.isidentifier():
            defs = flag_conditions(f, text)
            if defs:
                per_def = []
                for st, val, fs in defs:
                    s = set(fs)
                    for t, p in conjuncts(val, True):
                        s.add((norm(t), p))
                    per_def.append(s)
                common = set.intersection(*per_def) if per_def else set()
                extra |= common
    return facts | extra


def top_index(stmts, pred) -> List[int]:
    return [i for i, s in enumerate(stmts) if pred(s)]


def stmt_has_self_call(st, name) -> bool:
    return any(isinstance(c, ast.Call) and is_self_call(c, name) for c in walk_no_nested(st))
