"""Small argument-binding / local-definition helpers (parameter forwarding chains)."""
import ast
from typing import Optional, List

from .model import walk_no_nested, norm, FuncInfo


def bound_arg(call: ast.Call, callee: FuncInfo, pname: str, skip_self: bool = True) -> Optional[ast.AST]:
    """The expression a call binds to parameter `pname` of `callee`
    (positionally or by keyword); None when the parameter is left to its
    default.  Star-args make the binding unknown: returns the Starred node."""
    params = callee.params[1:] if skip_self and callee.cls is not None and callee.params and callee.params[0] in ("self", "cls") else callee.params
    for k in call.keywords:
        if k.arg == pname:
            return k.value
    if pname in params:
        i = params.index(pname)
        if i < len(call.args):
            for a in call.args[:i + 1]:
                if isinstance(a, ast.Starred):
                    return a
            return call.args[i]
    for k in call.keywords:
        if k.arg is None:
            return k.value  # **kwargs: unknown
    return None


def local_defs(f: FuncInfo, name: str) -> List[ast.AST]:
    """value expressions assigned to local `name` in f (not nested defs)"""
    out = []
    for n in walk_no_nested(f.node):
        if isinstance(n, ast.Assign):
            for t in n.targets:
                if isinstance(t, ast.Name) and t.id == name:
                    out.append(n.value)
        elif isinstance(n, ast.AnnAssign) and isinstance(n.target, ast.Name) and n.target.id == name and n.value is not None:
            out.append(n.value)
        elif isinstance(n, ast.AugAssign) and isinstance(n.target, ast.Name) and n.target.id == name:
            out.append(n)
    return out


def resolve_local(f: FuncInfo, expr: ast.AST, depth: int = 3) -> ast.AST:
    """Follow a chain of single-assignment locals."""
    while depth > 0 and isinstance(expr, ast.Name):
        d = local_defs(f, expr.id)
        if len(d) != 1 or isinstance(d[0], ast.AugAssign):
            break
        expr = d[0]
        depth -= 1
    return expr
