"""Second stage of the normalising front end: undo *structural* refactorings that keep behaviour, guided by the frozen
reference inventory (pdv/refshape.json).  Everything here is semantics-preserving for the purposes of the analysis
(results, effects and their order are kept; only evaluation is re-associated), and is applied only where the analysed
function deviates from the reference:

* helper inlining     a function / method that the reference does not know (extracted by a refactoring) and whose body is
                      straight-line code with at most one trailing `return` (or the two boolean-helper shapes
                      `if not A: return False; return B` / `if A: return True; return B`) is inlined at its call sites
                      (statement calls, `x = h(..)`, and calls inside expressions for single-`return` helpers) and removed;
* new locals          a local the reference does not know, assigned once from a side-effect-free expression, is
                      substituted back into its uses (named booleans, named sub-expressions, `pick = min if c else max`);
* conditional calls   `(f if c else g)(args)` is written `f(args) if c else g(args)`, and a statement `x = A if c else B`
                      (or `return` / expression statement) whose conditional the reference does not know becomes an
                      `if c: .. else: ..` statement;
* guard clauses       `if U: [X;] return` followed by REST in tail position (function body, loop body with `continue`)
                      is written `if U: X else: REST` (or `if not U: REST`) unless the reference has that guard; conversely
                      a trailing `if C: BODY` whose negation the reference knows as a guard is written as the guard;
* emptiness tests     `not x` / `x` used as a test where the reference has `len(x) == 0` / `len(x) != 0` / `x == []`.
"""
import ast
import copy
from typing import Dict, List, Optional

from .normalise import _unparse, _negate, _params, local_names, functions_of, _COMPL

_PURE_CALLS = {"len", "min", "max", "sum", "abs", "sorted", "list", "tuple", "set", "dict", "str", "int", "float", "bool", "isinstance", "any", "all", "zip", "enumerate", "range", "frozenset", "getattr", "hasattr", "type", "id", "repr", "round"}


# --------------------------------------------------------------------------------------------------- helpers
def _strip_doc(body):
    if body and isinstance(body[0], ast.Expr) and isinstance(body[0].value, ast.Constant) and isinstance(body[0].value.value, str):
        return body[1:]
    return body


def _is_log(st):
    return isinstance(st, ast.Expr) and isinstance(st.value, ast.Call) and "logger" in _unparse(st.value.func)


def _has(node, kinds):
    return any(isinstance(n, kinds) for n in ast.walk(node))


class _Subst(ast.NodeTransformer):
    def __init__(self, mapping):
        self.mapping = mapping

    def visit_Name(self, node):
        if isinstance(node.ctx, ast.Load) and node.id in self.mapping:
            return ast.copy_location(copy.deepcopy(self.mapping[node.id]), node)
        return node

    # do not descend into scopes that rebind a substituted name
    def visit_Lambda(self, node):
        inner = set(_params(node))
        m = {k: v for k, v in self.mapping.items() if k not in inner}
        if m:
            node.body = _Subst(m).visit(node.body)
        return node

    def _comp(self, node):
        bound = {n.id for g in node.generators for n in ast.walk(g.target) if isinstance(n, ast.Name)}
        m = {k: v for k, v in self.mapping.items() if k not in bound}
        node.generators[0].iter = self.visit(node.generators[0].iter)
        if m:
            sub = _Subst(m)
            for i, g in enumerate(node.generators):
                if i > 0:
                    g.iter = sub.visit(g.iter)
                g.ifs = [sub.visit(c) for c in g.ifs]
            for fld in ("elt", "key", "value"):
                if hasattr(node, fld):
                    setattr(node, fld, sub.visit(getattr(node, fld)))
        return node

    visit_ListComp = visit_SetComp = visit_DictComp = visit_GeneratorExp = _comp


def _blocks(node):
    """every statement list under node (not entering nested function / class definitions)"""
    out = []

    def rec(n):
        for fld in ("body", "orelse", "finalbody"):
            b = getattr(n, fld, None)
            if isinstance(b, list) and b and isinstance(b[0], ast.stmt):
                out.append((n, fld, b))
                for st in b:
                    if not isinstance(st, (ast.FunctionDef, ast.AsyncFunctionDef, ast.ClassDef)):
                        rec(st)
        for h in getattr(n, "handlers", []) or []:
            out.append((h, "body", h.body))
            for st in h.body:
                if not isinstance(st, (ast.FunctionDef, ast.AsyncFunctionDef, ast.ClassDef)):
                    rec(st)
    rec(node)
    return out


# --------------------------------------------------------------------------------------------------- helper inlining
def _helper_shape(fn):
    """('stmts', body, ret_expr|None) | ('expr', expr) | None"""
    if fn.decorator_list and not all(_unparse(d) == "staticmethod" for d in fn.decorator_list):
        return None
    a = fn.args
    if a.vararg or a.kwarg or a.kwonlyargs or a.posonlyargs:
        return None
    body = _strip_doc(fn.body)
    if not body or _has(fn, (ast.Yield, ast.YieldFrom, ast.Await, ast.Global, ast.Nonlocal)):
        return None
    if any(isinstance(r, ast.Return) and r.value is None for st in body for r in ast.walk(st)):
        # bare-return guards of a procedure: `if U: return` + REST  ==  `if not U: REST`
        tmp = ast.FunctionDef(name=fn.name, args=fn.args, body=copy.deepcopy(body), decorator_list=[], returns=None, lineno=fn.lineno, col_offset=0)
        unguard(tmp, {})
        body = tmp.body
        if body and isinstance(body[-1], ast.Return) and body[-1].value is None:
            body = body[:-1] or [ast.Pass()]
    if any(isinstance(n, (ast.FunctionDef, ast.AsyncFunctionDef, ast.ClassDef)) for st in body for n in ast.walk(st)):
        return None
    # boolean helper shapes
    if len(body) == 2 and isinstance(body[0], ast.If) and not body[0].orelse and len(body[0].body) == 1 and isinstance(body[0].body[0], ast.Return) \
            and isinstance(body[0].body[0].value, ast.Constant) and isinstance(body[0].body[0].value.value, bool) and isinstance(body[1], ast.Return) and body[1].value is not None:
        t, v, rest = body[0].test, body[0].body[0].value.value, body[1].value
        if v is False:
            return ("expr", ast.BoolOp(op=ast.And(), values=[_negate(t), rest]))
        return ("expr", ast.BoolOp(op=ast.Or(), values=[t, rest]))
    rets = [n for st in body for n in ast.walk(st) if isinstance(n, ast.Return)]
    if len(rets) > 1:
        # leading straight-line statements, then a cascade `if T1: return A1 [elif ..] ... return B`  ->  one conditional expression
        k = 0
        while k < len(body) and not _has(body[k], (ast.Return,)):
            k += 1
        e = _cascade(body[k:])
        if e is None or any(_has(st, (ast.For, ast.While, ast.Try, ast.With)) for st in body[:k]):
            return ("whole", body)
        return ("stmts", body[:k], e) if k else ("expr", e)
    if rets and rets[0] is not body[-1]:
        return ("whole", body)
    if len(body) == 1 and rets and rets[0].value is not None:
        return ("expr", rets[0].value)
    if rets:
        return ("stmts", body[:-1], rets[0].value)
    return ("stmts", body, None)


def _cascade(stmts):
    """expression equivalent to a statement list made only of `if T: <cascade>` [else: <cascade>] and a final `return E`"""
    if not stmts:
        return None
    st = stmts[0]
    if isinstance(st, ast.Return) and len(stmts) == 1:
        return st.value if st.value is not None else ast.Constant(value=None)
    if isinstance(st, ast.If):
        a = _cascade(st.body)
        if a is None:
            return None
        if st.orelse:
            b = _cascade(st.orelse)
            if b is None or len(stmts) != 1:
                return None
        else:
            b = _cascade(stmts[1:])
            if b is None:
                return None
        return ast.IfExp(test=st.test, body=a, orelse=b)
    return None


def _bind(call, fn, bound):
    """param -> argument expression, or None when the call cannot be bound simply"""
    ps = [x.arg for x in fn.args.args]
    if bound and ps:
        ps = ps[1:]
    if any(isinstance(x, ast.Starred) for x in call.args) or any(k.arg is None for k in call.keywords) or len(call.args) > len(ps):
        return None
    m = dict(zip(ps, call.args))
    for k in call.keywords:
        if k.arg not in ps or k.arg in m:
            return None
        m[k.arg] = k.value
    nd = len(fn.args.defaults)
    for p, d in zip(ps[len(ps) - nd:], fn.args.defaults):
        m.setdefault(p, d)
    if set(m) != set(ps):
        return None
    return m


def inline_helpers(tree, ref_mod: dict) -> int:
    known = set(ref_mod)
    n_done = 0
    owners = [(None, tree.body)] + [(c, c.body) for c in tree.body if isinstance(c, ast.ClassDef)]
    for owner, body in owners:
        prefix = (owner.name + ".") if owner is not None else ""
        new = [f for f in body if isinstance(f, (ast.FunctionDef,)) and (prefix + f.name) not in known and not (f.name.startswith("__") and f.name.endswith("__"))]
        if owner is not None and not any((prefix + f.name) in known for f in body if isinstance(f, ast.FunctionDef)):
            continue   # a class the reference does not know at all: leave it alone
        for h in new:
            shp = _helper_shape(h)
            if shp is None:
                continue
            bound = owner is not None and not any(_unparse(d) == "staticmethod" for d in h.decorator_list)
            selfname = h.args.args[0].arg if bound and h.args.args else None
            # recursive helpers are not inlined
            if any(isinstance(c, ast.Call) and _callee_name(c, owner) == h.name for c in ast.walk(h)):
                continue
            left = 0
            done_here = 0
            scopes = [f for f in body if isinstance(f, (ast.FunctionDef, ast.AsyncFunctionDef)) and f is not h]
            if owner is None:
                scopes += [f for c in tree.body if isinstance(c, ast.ClassDef) for f in c.body if isinstance(f, (ast.FunctionDef, ast.AsyncFunctionDef))]
            for f in scopes:
                d, l = _inline_in(f, h, shp, owner, bound, selfname)
                done_here += d
                left += l
            if done_here and not left:
                body.remove(h)
            n_done += done_here
    # local closures introduced inside a known function
    for q, fn in functions_of(tree):
        if q not in known:
            continue
        for h in [x for x in fn.body if isinstance(x, ast.FunctionDef) and (q + ".<locals>." + x.name) not in known]:
            shp = _helper_shape(h)
            if shp is None or any(isinstance(c, ast.Call) and isinstance(c.func, ast.Name) and c.func.id == h.name for c in ast.walk(h)):
                continue
            # the closure must not be used as a value (passed around), only called
            uses = [n for n in ast.walk(fn) if isinstance(n, ast.Name) and n.id == h.name and isinstance(n.ctx, ast.Load)]
            calls = [c for c in ast.walk(fn) if isinstance(c, ast.Call) and isinstance(c.func, ast.Name) and c.func.id == h.name]
            if len(uses) != len(calls):
                continue
            d, l = _inline_in(fn, h, shp, None, False, None)
            if d and not l:
                fn.body.remove(h)
            n_done += d
    return n_done


def _callee_name(call, owner):
    f = call.func
    if isinstance(f, ast.Name) and owner is None:
        return f.id
    if isinstance(f, ast.Attribute) and isinstance(f.value, ast.Name) and owner is not None and f.value.id in ("self", "cls", owner.name):
        return f.attr
    return None


def _inline_in(f, h, shp, owner, bound, selfname):
    done = left = 0

    def subst_map(call):
        m = _bind(call, h, bound)
        if m is None:
            return None
        if selfname and isinstance(call.func, ast.Attribute):
            m = dict(m)
            m[selfname] = call.func.value
        stored = {n.id for st in h.body for n in ast.walk(st) if isinstance(n, ast.Name) and isinstance(n.ctx, ast.Store)}
        pre = []
        out = {}
        for p, a in m.items():
            if isinstance(a, ast.Name) and a.id == p:
                continue
            if p in stored:
                pre.append(ast.Assign(targets=[ast.Name(id=p, ctx=ast.Store())], value=copy.deepcopy(a), lineno=call.lineno, col_offset=0))
            else:
                out[p] = a
        return out, pre

    for owner_node, fld, blk in _blocks(f):
        i = 0
        while i < len(blk):
            st = blk[i]
            call = None
            kind = None
            if isinstance(st, ast.Expr) and isinstance(st.value, ast.Call) and _callee_name(st.value, owner) == h.name:
                call, kind = st.value, "stmt"
            elif isinstance(st, ast.Assign) and isinstance(st.value, ast.Call) and _callee_name(st.value, owner) == h.name:
                call, kind = st.value, "assign"
            elif isinstance(st, ast.Return) and isinstance(st.value, ast.Call) and _callee_name(st.value, owner) == h.name:
                call, kind = st.value, "return"
            if isinstance(st, ast.Return) and isinstance(st.value, ast.Call) and _callee_name(st.value, owner) == h.name and shp[0] == "whole":
                sm = subst_map(st.value)
                if sm is not None:
                    m, pre = sm
                    new = list(pre) + [_Subst(m).visit(copy.deepcopy(s_)) for s_ in shp[1]]
                    for s_ in new:
                        ast.fix_missing_locations(ast.copy_location(s_, st))
                    blk[i:i + 1] = new
                    done += 1
                    i += len(new)
                    continue
            if call is None and shp[0] == "stmts" and shp[2] is not None and isinstance(st, (ast.If, ast.While, ast.Assign, ast.Return, ast.Expr)) and not isinstance(st, ast.While):
                holder = st.test if isinstance(st, ast.If) else st.value
                cs = [c for c in ast.walk(holder) if isinstance(c, ast.Call) and _callee_name(c, owner) == h.name] if holder is not None else []
                if len(cs) == 1:
                    sm = subst_map(cs[0])
                    if sm is not None:
                        m, pre = sm
                        stmts = [_Subst(m).visit(copy.deepcopy(s)) for s in shp[1]]
                        re_ = _Subst(m).visit(copy.deepcopy(shp[2]))

                        class _R(ast.NodeTransformer):
                            def visit_Call(self, node):
                                if node is cs[0]:
                                    return ast.copy_location(re_, node)
                                return self.generic_visit(node)
                        if isinstance(st, ast.If):
                            st.test = _R().visit(st.test)
                        else:
                            st.value = _R().visit(st.value)
                        new = list(pre) + stmts
                        for s_ in new:
                            ast.copy_location(s_, st)
                            ast.fix_missing_locations(s_)
                        blk[i:i] = new
                        done += 1
                        i += len(new) + 1
                        continue
            if call is not None and shp[0] == "whole":
                if kind == "return":
                    i += 1
                    continue
                left += 1
                i += 1
                continue
            if call is not None:
                sm = subst_map(call)
                if sm is None:
                    left += 1
                    i += 1
                    continue
                m, pre = sm
                if shp[0] == "expr":
                    e = _Subst(m).visit(copy.deepcopy(shp[1]))
                    new = list(pre)
                    if kind == "stmt":
                        new.append(ast.Expr(value=e))
                    elif kind == "assign":
                        new.append(ast.Assign(targets=st.targets, value=e))
                    else:
                        new.append(ast.Return(value=e))
                else:
                    stmts = [_Subst(m).visit(copy.deepcopy(s)) for s in shp[1]]
                    new = list(pre) + stmts
                    re_ = _Subst(m).visit(copy.deepcopy(shp[2])) if shp[2] is not None else None
                    if kind == "assign":
                        val = re_ if re_ is not None else ast.Constant(value=None)
                        if not (len(st.targets) == 1 and _unparse(st.targets[0]) == _unparse(val)):
                            new.append(ast.Assign(targets=st.targets, value=val))
                    elif kind == "return":
                        new.append(ast.Return(value=re_))
                    elif re_ is not None and _has(re_, (ast.Call,)):
                        new.append(ast.Expr(value=re_))
                for s in new:
                    ast.copy_location(s, st)
                    ast.fix_missing_locations(s)
                blk[i:i + 1] = new or [ast.copy_location(ast.Pass(), st)]
                done += 1
                i += max(len(new), 1)
                continue
            i += 1
    # calls inside expressions (tests, operands): only expression-shaped helpers
    class _E(ast.NodeTransformer):
        def __init__(self):
            self.n = 0
            self.left = 0

        def visit_FunctionDef(self, node):
            return node if node is not f else self.generic_visit(node)

        def visit_Call(self, node):
            self.generic_visit(node)
            if _callee_name(node, owner) == h.name:
                if shp[0] == "whole" and getattr(node, "_pdv_ret", False):
                    return node
                if shp[0] != "expr":
                    self.left += 1
                    return node
                sm = subst_map(node)
                if sm is None or sm[1]:
                    self.left += 1
                    return node
                self.n += 1
                return ast.copy_location(_Subst(sm[0]).visit(copy.deepcopy(shp[1])), node)
            return node
    e = _E()
    e.visit(f)
    ast.fix_missing_locations(f)
    return done + e.n, left + e.left


# --------------------------------------------------------------------------------------------------- conditional calls / statements
class _IfExpCall(ast.NodeTransformer):
    """(f if c else g)(args) -> f(args) if c else g(args)"""

    def __init__(self):
        self.n = 0

    def visit_Call(self, node):
        self.generic_visit(node)
        if isinstance(node.func, ast.IfExp):
            fx = node.func
            self.n += 1
            a = ast.Call(func=fx.body, args=node.args, keywords=node.keywords)
            b = ast.Call(func=fx.orelse, args=copy.deepcopy(node.args), keywords=copy.deepcopy(node.keywords))
            return ast.copy_location(ast.IfExp(test=fx.test, body=a, orelse=b), node)
        return node


def _ifexp_calls(fnode, ref: dict) -> int:
    ic = _IfExpCall()
    ic.visit(fnode)
    return ic.n


def split_ifexp_statements(fnode, ref: dict) -> int:
    total = 0
    for _ in range(6):
        k = _split_ifexp_once(fnode, ref)
        total += k
        if not k:
            break
    return total


def _split_ifexp_once(fnode, ref: dict) -> int:
    known = set(ref.get("ifexps", []))
    n = 0
    for owner, fld, blk in _blocks(fnode):
        for i, st in enumerate(list(blk)):
            v = getattr(st, "value", None)
            if isinstance(st, (ast.Assign, ast.Return, ast.Expr)) and isinstance(v, ast.IfExp) and _unparse(v) not in known:
                def mk(val):
                    s = copy.copy(st)
                    s.value = val
                    return s
                new = ast.If(test=v.test, body=[mk(v.body)], orelse=[mk(v.orelse)])
                ast.copy_location(new, st)
                blk[blk.index(st)] = new
                n += 1
    if n:
        ast.fix_missing_locations(fnode)
    return n


def contract_known_ifexp(fnode, ref: dict) -> int:
    """`if c: x = A [else: x = B]` -> `x = A if c else B|x` when the reference has exactly that conditional expression"""
    known = set(ref.get("ifexps", []))
    if not known:
        return 0
    n = 0
    for owner, fld, blk in _blocks(fnode):
        # `if c: return A` directly followed by `return B` is the same exit pair as `if c: return A else: return B`
        for i, st in enumerate(blk[:-1]):
            nx = blk[i + 1]
            if isinstance(st, ast.If) and not st.orelse and len(st.body) == 1 and isinstance(st.body[0], ast.Return) and st.body[0].value is not None and isinstance(nx, ast.Return) and nx.value is not None:
                for cand in (ast.IfExp(test=st.test, body=st.body[0].value, orelse=nx.value), ast.IfExp(test=_negate(copy.deepcopy(st.test)), body=nx.value, orelse=st.body[0].value)):
                    ast.fix_missing_locations(ast.copy_location(cand, st))
                    if _unparse(cand) in known:
                        new = ast.Return(value=cand)
                        ast.fix_missing_locations(ast.copy_location(new, st))
                        blk[i:i + 2] = [new]
                        n += 1
                        break
                break
    for owner, fld, blk in _blocks(fnode):
        for i, st in enumerate(blk):
            if isinstance(st, ast.If) and len(st.body) == 1 and len(st.orelse) == 1 and type(st.body[0]) is type(st.orelse[0]) and isinstance(st.body[0], (ast.Return, ast.Expr)) \
                    and st.body[0].value is not None and st.orelse[0].value is not None:
                for cand in (ast.IfExp(test=st.test, body=st.body[0].value, orelse=st.orelse[0].value), ast.IfExp(test=_negate(copy.deepcopy(st.test)), body=st.orelse[0].value, orelse=st.body[0].value)):
                    ast.fix_missing_locations(ast.copy_location(cand, st))
                    if _unparse(cand) in known:
                        new = type(st.body[0])(value=cand)
                        ast.fix_missing_locations(ast.copy_location(new, st))
                        blk[i] = new
                        n += 1
                        break
                continue
            if isinstance(st, ast.If) and len(st.body) == 1 and isinstance(st.body[0], ast.Assign) and len(st.body[0].targets) == 1 and len(st.orelse) <= 1:
                tgt = st.body[0].targets[0]
                if st.orelse:
                    o = st.orelse[0]
                    if not (isinstance(o, ast.Assign) and len(o.targets) == 1 and _unparse(o.targets[0]) == _unparse(tgt)):
                        continue
                    other = o.value
                else:
                    if not isinstance(tgt, (ast.Name, ast.Attribute)):
                        continue
                    other = copy.deepcopy(tgt)
                    for x in ast.walk(other):
                        if hasattr(x, "ctx"):
                            x.ctx = ast.Load()
                for cand in (ast.IfExp(test=st.test, body=st.body[0].value, orelse=other), ast.IfExp(test=_negate(copy.deepcopy(st.test)), body=other, orelse=st.body[0].value)):
                    ast.fix_missing_locations(ast.copy_location(cand, st))
                    if _unparse(cand) in known:
                        new = ast.Assign(targets=[tgt], value=cand)
                        ast.fix_missing_locations(ast.copy_location(new, st))
                        blk[i] = new
                        n += 1
                        break
    return n


# --------------------------------------------------------------------------------------------------- new locals
def _pure(e) -> bool:
    for n in ast.walk(e):
        if isinstance(n, ast.Call):
            if not (isinstance(n.func, ast.Name) and n.func.id in _PURE_CALLS) and not (isinstance(n.func, ast.Attribute) and n.func.attr in ("get", "keys", "values", "items", "copy", "count", "index", "startswith", "endswith", "isEnabledFor")):
                return False
        if isinstance(n, (ast.Yield, ast.YieldFrom, ast.Await, ast.NamedExpr, ast.Lambda)):
            return False
    return True


def inline_new_locals(fnode, ref: dict) -> int:
    from .normalise import match_locals
    _pairs, unknown = match_locals(fnode, ref)
    unknown = [x for x in unknown if x != "_"]
    surplus = len(unknown)
    if surplus <= 0:
        return 0
    done = 0
    # candidates, call-free right-hand sides first, latest binding first (temps introduced next to their use)
    cands = []
    for owner, fld, blk in _blocks(fnode):
        for i, st in enumerate(blk):
            if isinstance(st, ast.Assign) and len(st.targets) == 1 and isinstance(st.targets[0], ast.Name) and st.targets[0].id in unknown:
                cands.append((st.targets[0].id, st, blk))
    by_name = {}
    for nm, st, blk in cands:
        by_name.setdefault(nm, []).append((st, blk))
    # a name bound once, or bound once in each of several disjoint blocks with all its readers in the block that binds it
    # (the branches of an if after `dup_tails`): every binding is then a temporary of its own block
    def _multi_ok(nm):
        v = by_name[nm]
        stores = [n for n in ast.walk(fnode) if isinstance(n, ast.Name) and n.id == nm and isinstance(n.ctx, (ast.Store, ast.Del))]
        if len(stores) != len(v):
            return False
        all_u = [n for n in ast.walk(fnode) if isinstance(n, ast.Name) and n.id == nm and isinstance(n.ctx, ast.Load)]
        seen = set()
        binders = {id(st_) for st_, _b in v}
        for st_, blk_ in v:
            for s2 in blk_[blk_.index(st_) + 1:]:
                # another binding of the name downstream of this one (a loop-carried value, a re-assignment): not a temporary
                if any(id(n) in binders for n in ast.walk(s2)):
                    return False
                for n in ast.walk(s2):
                    if isinstance(n, ast.Name) and n.id == nm and isinstance(n.ctx, ast.Load):
                        if id(n) in seen:
                            return False
                        seen.add(id(n))
        return len(seen) == len(all_u)
    work = []
    for nm, v in by_name.items():
        if len(v) == 1 or _multi_ok(nm):
            for st_, blk_ in v:
                work.append((nm, st_, blk_, len(v)))
    work.sort(key=lambda w: (_has(w[1].value, (ast.Call,)), -w[1].lineno))
    for nm, st, blk, nbind in work:
        if surplus <= 0:
            break
        if st not in blk:
            continue
        stores = [n for n in ast.walk(fnode) if isinstance(n, ast.Name) and n.id == nm and isinstance(n.ctx, (ast.Store, ast.Del))]
        if nbind == 1 and len(stores) != 1:
            continue
        impure = not _pure(st.value)
        free = {n.id for n in ast.walk(st.value) if isinstance(n, ast.Name)}
        i = blk.index(st)
        after = blk[i + 1:]
        # the names (and self attributes) the expression reads are not rebound after the definition, within the block that holds it
        reb = False
        attrs = {_unparse(n) for n in ast.walk(st.value) if isinstance(n, ast.Attribute)}
        uses = [n for s2 in after for n in ast.walk(s2) if isinstance(n, ast.Name) and n.id == nm and isinstance(n.ctx, ast.Load)]
        last_k = max((k for k, s2 in enumerate(after) if any(n is u for u in uses for n in ast.walk(s2))), default=-1)

        def rebinds(node):
            for n in ast.walk(node):
                if isinstance(n, ast.Name) and isinstance(n.ctx, ast.Store) and n.id in free:
                    return True
                if isinstance(n, ast.Attribute) and isinstance(n.ctx, ast.Store) and _unparse(n) in attrs:
                    return True
            return False
        for k, s2 in enumerate(after[:last_k + 1]):
            if k < last_k:
                reb = reb or rebinds(s2)
            else:
                # the statement holding the last use: a use in the test of an if / while is evaluated before the body runs
                if isinstance(s2, (ast.If, ast.While)) and all(any(n is u for n in ast.walk(s2.test)) for u in uses if any(n is u for n in ast.walk(s2))) and not isinstance(s2, ast.While):
                    pass
                else:
                    reb = reb or rebinds(s2)
        all_uses = [n for n in ast.walk(fnode) if isinstance(n, ast.Name) and n.id == nm and isinstance(n.ctx, ast.Load)]
        if reb or not uses or (nbind == 1 and len(uses) != len(all_uses)):
            continue
        # a container that is filled / mutated through the name is not a temporary
        mutated = False
        for s2 in after:
            for n in ast.walk(s2):
                if isinstance(n, (ast.Subscript, ast.Attribute)) and isinstance(n.value, ast.Name) and n.value.id == nm:
                    if isinstance(n.ctx, (ast.Store, ast.Del)):
                        mutated = True
                    if isinstance(n, ast.Attribute) and n.attr in ("append", "extend", "add", "update", "insert", "setdefault", "pop", "remove", "clear", "sort", "reverse", "discard", "popitem", "appendleft"):
                        mutated = True
                if isinstance(n, ast.AugAssign) and isinstance(n.target, ast.Name) and n.target.id == nm:
                    mutated = True
        if mutated:
            continue
        if _has(st.value, (ast.Call,)) and len(uses) > 1:
            continue
        if impure:
            # a call with possible effects may only move into the very next statement, where it is evaluated first:
            # the use must not sit behind another call, in a loop, or in a branch
            nxt = after[0] if after else None
            if last_k != 0 or nxt is None or isinstance(nxt, (ast.For, ast.While, ast.With, ast.Try)):
                continue
            holder = nxt.test if isinstance(nxt, ast.If) else nxt
            if not any(n is uses[0] for n in ast.walk(holder)):
                continue
            first_call = next((n for n in ast.walk(holder) if isinstance(n, ast.Call)), None)
            if first_call is not None and not any(n is uses[0] for n in ast.walk(first_call)) and isinstance(nxt, (ast.Assign, ast.Expr, ast.Return, ast.AugAssign)) is False:
                continue
        sub = _Subst({nm: st.value})
        for k in range(i + 1, len(blk)):
            blk[k] = sub.visit(blk[k])
        blk.remove(st)
        if not blk:
            blk.append(ast.copy_location(ast.Pass(), st))
        done += 1
        if not any(isinstance(n, ast.Name) and n.id == nm for n in ast.walk(fnode)):
            surplus -= 1
    if done:
        ast.fix_missing_locations(fnode)
    return done


def merge_branch_assignments(fnode, ref: dict) -> int:
    """`if c: t = A else: t = B` for a local t the reference does not know -> `t = A if c else B` (then inlined like any new local)"""
    refl = set(ref.get("locals", []))
    n = 0
    for owner, fld, blk in _blocks(fnode):
        for i, st in enumerate(blk):
            if isinstance(st, ast.If) and len(st.body) == 1 and len(st.orelse) == 1 and all(isinstance(x, ast.Assign) and len(x.targets) == 1 and isinstance(x.targets[0], ast.Name) for x in (st.body[0], st.orelse[0])) \
                    and st.body[0].targets[0].id == st.orelse[0].targets[0].id and st.body[0].targets[0].id not in refl:
                new = ast.Assign(targets=[st.body[0].targets[0]], value=ast.IfExp(test=st.test, body=st.body[0].value, orelse=st.orelse[0].value))
                ast.copy_location(new, st)
                ast.fix_missing_locations(new)
                blk[i] = new
                n += 1
    return n


def ifexp_tests(fnode, ref: dict) -> int:
    """`if (A if c else B):` -> `if (c and A) or (not c and B):` (truth value only), when the reference has no such conditional"""
    known = set(ref.get("ifexps", []))
    n = 0
    for x in ast.walk(fnode):
        if isinstance(x, (ast.If, ast.While)) and isinstance(x.test, ast.IfExp) and _unparse(x.test) not in known:
            t = x.test
            x.test = ast.copy_location(ast.BoolOp(op=ast.Or(), values=[ast.BoolOp(op=ast.And(), values=[t.test, t.body]), ast.BoolOp(op=ast.And(), values=[_negate(copy.deepcopy(t.test)), t.orelse])]), t)
            n += 1
    if n:
        ast.fix_missing_locations(fnode)
    return n


# --------------------------------------------------------------------------------------------------- comprehensions <-> accumulation loops
def _canon_comp(c):
    from .normalise import canon
    return canon(c)


def expand_new_comprehensions(fnode, ref: dict) -> int:
    """`x = [e for t in it if c]` (also dict / set, and `x.extend(<gen>)`) whose canonical text the reference does not know
    -> `x = []` + accumulation loop, the form the reference most probably had"""
    known = set(ref.get("scopes", {}))
    if "scopes_all" in ref:
        known |= set(ref["scopes_all"])
    n = 0
    for owner, fld, blk in _blocks(fnode):
        i = 0
        while i < len(blk):
            st = blk[i]
            comp, tgt, mode = None, None, None
            if isinstance(st, ast.Assign) and len(st.targets) == 1 and isinstance(st.targets[0], ast.Name) and isinstance(st.value, (ast.ListComp, ast.SetComp, ast.DictComp)):
                comp, tgt, mode = st.value, st.targets[0].id, "new"
            elif isinstance(st, ast.Expr) and isinstance(st.value, ast.Call) and isinstance(st.value.func, ast.Attribute) and st.value.func.attr == "extend" and isinstance(st.value.func.value, ast.Name) \
                    and len(st.value.args) == 1 and isinstance(st.value.args[0], (ast.GeneratorExp, ast.ListComp)):
                comp, tgt, mode = st.value.args[0], st.value.func.value.id, "extend"
            elif isinstance(st, ast.AugAssign) and isinstance(st.op, ast.Add) and isinstance(st.target, ast.Name) and isinstance(st.value, (ast.GeneratorExp, ast.ListComp)):
                # `x += (<gen>)` is the canonical notation of `x.extend(<gen>)`
                comp, tgt, mode = st.value, st.target.id, "extend"
            ret_form = False
            if comp is None and isinstance(st, ast.Return) and isinstance(st.value, (ast.ListComp, ast.DictComp, ast.SetComp)):
                # `return [..comprehension..]`: accumulate into the local the reference had for it (first reference local that is gone)
                have = set(local_names(fnode)) | {x.id for x in ast.walk(fnode) if isinstance(x, ast.Name)} | set(_params(fnode))
                gone = [x for x in ref.get("locals", []) if x not in have and x != "_"]
                comp, tgt, mode, ret_form = st.value, (gone[0] if gone else "_pdv_acc"), "new", True
            if comp is None or _canon_comp(comp) in known or any(isinstance(x, (ast.ListComp, ast.SetComp, ast.DictComp, ast.GeneratorExp)) for g_ in comp.generators for x in ast.walk(g_)):
                i += 1
                continue
            if isinstance(comp, ast.DictComp):
                inner = ast.Assign(targets=[ast.Subscript(value=ast.Name(id=tgt, ctx=ast.Load()), slice=comp.key, ctx=ast.Store())], value=comp.value)
                init = ast.Dict(keys=[], values=[])
            elif isinstance(comp, ast.SetComp):
                inner = ast.Expr(value=ast.Call(func=ast.Attribute(value=ast.Name(id=tgt, ctx=ast.Load()), attr="add", ctx=ast.Load()), args=[comp.elt], keywords=[]))
                init = ast.Call(func=ast.Name(id="set", ctx=ast.Load()), args=[], keywords=[])
            else:
                inner = ast.Expr(value=ast.Call(func=ast.Attribute(value=ast.Name(id=tgt, ctx=ast.Load()), attr="append", ctx=ast.Load()), args=[comp.elt], keywords=[]))
                init = ast.List(elts=[], ctx=ast.Load())
            body = [inner]
            for g in reversed(comp.generators):
                for c in reversed(g.ifs):
                    body = [ast.If(test=c, body=body, orelse=[])]
                body = [ast.For(target=g.target, iter=g.iter, body=body, orelse=[])]
            new = ([ast.Assign(targets=[ast.Name(id=tgt, ctx=ast.Store())], value=init)] if mode == "new" else []) + body
            if ret_form:
                new.append(ast.Return(value=ast.Name(id=tgt, ctx=ast.Load())))
            for s_ in new:
                ast.copy_location(s_, st)
                ast.fix_missing_locations(s_)
            blk[i:i + 1] = new
            i += len(new)
            n += 1
    return n


def contract_known_loops(fnode, ref: dict) -> int:
    """`x = []` immediately followed by `for t in it: [if c:] x.append(e)` -> the comprehension, when the reference has it"""
    known = set(ref.get("scopes", {})) | set(ref.get("scopes_all", []))
    if not known:
        return 0
    n = 0
    for owner, fld, blk in _blocks(fnode):
        i = 0
        while i + 1 < len(blk):
            a, l = blk[i], blk[i + 1]
            if isinstance(a, ast.Assign) and len(a.targets) == 1 and isinstance(a.targets[0], ast.Name) and isinstance(l, ast.For) and not l.orelse:
                tgt = a.targets[0].id
                empty_list = isinstance(a.value, ast.List) and not a.value.elts
                empty_dict = isinstance(a.value, ast.Dict) and not a.value.keys
                gens = []
                cur_l = l
                while True:
                    body, ifs = cur_l.body, []
                    while len(body) == 1 and isinstance(body[0], ast.If) and not body[0].orelse:
                        ifs.append(body[0].test)
                        body = body[0].body
                    gens.append(ast.comprehension(target=cur_l.target, iter=cur_l.iter, ifs=ifs, is_async=0))
                    if len(body) == 1 and isinstance(body[0], ast.For) and not body[0].orelse:
                        cur_l = body[0]
                        continue
                    break
                comp = None
                if len(body) == 1 and empty_list and isinstance(body[0], ast.Expr) and isinstance(body[0].value, ast.Call) and _unparse(body[0].value.func) == f"{tgt}.append" and len(body[0].value.args) == 1:
                    comp = ast.ListComp(elt=body[0].value.args[0], generators=gens)
                elif len(body) == 1 and empty_dict and isinstance(body[0], ast.Assign) and isinstance(body[0].targets[0], ast.Subscript) and _unparse(body[0].targets[0].value) == tgt:
                    comp = ast.DictComp(key=body[0].targets[0].slice, value=body[0].value, generators=gens)
                if comp is not None:
                    ast.copy_location(comp, a)
                    ast.fix_missing_locations(comp)
                    if _canon_comp(comp) in known:
                        a.value = comp
                        del blk[i + 1]
                        n += 1
            i += 1
    return n


# --------------------------------------------------------------------------------------------------- guard clauses
def _is_bare_exit(st, kind):
    if kind == "return":
        return isinstance(st, ast.Return) and (st.value is None or (isinstance(st.value, ast.Constant) and st.value.value is None))
    return isinstance(st, ast.Continue)


def _tail_blocks(fnode):
    """(block, exit kind) for blocks in tail position: what follows the block is the end of the function ('return') or of a
    loop iteration ('continue')"""
    out = []

    def rec(blk, kind):
        out.append((blk, kind))
        if not blk:
            return
        last = blk[-1]
        if isinstance(last, ast.If):
            rec(last.body, kind)
            if last.orelse:
                rec(last.orelse, kind)
        elif isinstance(last, (ast.With,)):
            rec(last.body, kind)
        for st in blk:
            if isinstance(st, (ast.For, ast.While)):
                rec(st.body, "continue")
            elif isinstance(st, ast.If) and st is not last:
                # loops nested in non-tail ifs still have their own tail
                for sub in (st.body, st.orelse):
                    for s2 in sub:
                        if isinstance(s2, (ast.For, ast.While)):
                            rec(s2.body, "continue")
            elif isinstance(st, ast.Try):
                for s2 in st.body:
                    if isinstance(s2, (ast.For, ast.While)):
                        rec(s2.body, "continue")
    rec(fnode.body, "return")
    return out


def guard_forms(fnode):
    """texts of the tests of guard-form ifs (`if U: [logs;] return|continue`, no else, something follows)"""
    out = []
    for blk, kind in _tail_blocks(fnode):
        for i, st in enumerate(blk[:-1]):
            if isinstance(st, ast.If) and not st.orelse and st.body and _is_bare_exit(st.body[-1], kind):
                out.append(_unparse(st.test))
    return sorted(set(out))


def unguard(fnode, ref: dict) -> int:
    """guard clause -> if/else, unless the reference function has that very guard"""
    keep = set(ref.get("guards", []))
    n = 0
    changed = True
    while changed:
        changed = False
        for blk, kind in _tail_blocks(fnode):
            for i, st in enumerate(blk[:-1]):
                if isinstance(st, ast.If) and st.orelse and all(isinstance(x, ast.Pass) for x in st.body) and _is_bare_exit(st.orelse[-1], kind):
                    # `if C: pass else: X; return` + REST  ==  `if C: REST else: X`
                    rest = blk[i + 1:]
                    st.body = rest
                    st.orelse = st.orelse[:-1]
                    del blk[i + 1:]
                    n += 1
                    changed = True
                    break
                if isinstance(st, ast.If) and not st.orelse and st.body and _is_bare_exit(st.body[-1], kind) and _unparse(st.test) not in keep:
                    rest = blk[i + 1:]
                    x = st.body[:-1]
                    if x:
                        st.orelse = rest
                        st.body = x
                    else:
                        st.test = _negate(st.test)
                        st.body = rest
                    del blk[i + 1:]
                    n += 1
                    changed = True
                    break
            if changed:
                break
    if n:
        ast.fix_missing_locations(fnode)
    return n


def guardify(fnode, ref: dict) -> int:
    """trailing `if C: BODY` whose negation the reference knows as a guard (and C itself is unknown) -> the guard form"""
    guards = set(ref.get("guards", []))
    known = set(ref.get("ifs", [])) | set(ref.get("ifs_noelse", []))
    n = 0
    for blk, kind in _tail_blocks(fnode):
        if not blk:
            continue
        st = blk[-1]
        if isinstance(st, ast.If) and _unparse(st.test) not in known and _unparse(_negate(st.test)) in guards:
            exit_st = ast.Return(value=None) if kind == "return" else ast.Continue()
            if st.orelse:
                g = ast.If(test=_negate(st.test), body=list(st.orelse) + [exit_st], orelse=[])
            else:
                g = ast.If(test=_negate(st.test), body=[exit_st], orelse=[])
            ast.copy_location(g, st)
            ast.copy_location(exit_st, st)
            blk[-1:] = [g] + list(st.body)
            n += 1
    if n:
        ast.fix_missing_locations(fnode)
    return n


# --------------------------------------------------------------------------------------------------- emptiness
def emptiness_forms(fnode, ref: dict) -> int:
    """tests written `not x` / `x` where the reference compares `len(x)` with 0 or x with an empty display"""
    want = {}
    for t in ref.get("eqs", []):
        try:
            c = ast.parse(t, mode="eval").body
        except SyntaxError:
            continue
        if not (isinstance(c, ast.Compare) and len(c.ops) == 1):
            continue
        l, r = c.left, c.comparators[0]
        x = None
        if isinstance(l, ast.Call) and isinstance(l.func, ast.Name) and l.func.id == "len" and len(l.args) == 1 and isinstance(r, ast.Constant) and r.value == 0:
            x = _unparse(l.args[0])
        elif isinstance(r, (ast.List, ast.Dict, ast.Tuple)) and not getattr(r, "elts", getattr(r, "keys", [])):
            x = _unparse(l)
        if x is not None:
            want.setdefault((x, isinstance(c.ops[0], ast.Eq)), c)
    if not want:
        return 0
    have = {_unparse(n) for n in ast.walk(fnode) if isinstance(n, ast.Compare)}
    n_ch = 0

    def fix(test):
        nonlocal n_ch
        neg = isinstance(test, ast.UnaryOp) and isinstance(test.op, ast.Not)
        x = _unparse(test.operand) if neg else _unparse(test)
        c = want.get((x, neg))
        if c is not None and _unparse(c) not in have and not isinstance(test, ast.Compare):
            n_ch += 1
            return ast.copy_location(copy.deepcopy(c), test)
        return test
    for n in ast.walk(fnode):
        if isinstance(n, (ast.If, ast.While, ast.IfExp)):
            n.test = fix(n.test)
        elif isinstance(n, ast.BoolOp):
            n.values = [fix(v) for v in n.values]
    if n_ch:
        ast.fix_missing_locations(fnode)
    return n_ch


def ifexp_texts(fnode):
    return sorted({_unparse(n) for n in ast.walk(fnode) if isinstance(n, ast.IfExp)})


def noelse_texts(fnode):
    return sorted({_unparse(n.test) for n in ast.walk(fnode) if isinstance(n, ast.If) and not n.orelse})
