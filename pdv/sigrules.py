"""Call sites bind to the signature of the callee (repository-internal callees only).

Resolved callees: a bare / dotted name that resolves to a function or a class of the repository (class -> its __init__
through the MRO), `self.m(..)` and `super().m(..)` inside a class (MRO lookup; only when no class of the hierarchy is
external, `__getattr__`-free, and the method is not re-assigned as an instance attribute).  A call is ill-bound when it
passes more positional arguments than the callee accepts, a keyword the callee has no parameter for (and no **kwargs),
a parameter twice, or misses a required parameter.  Calls with *args / **kwargs at the call site are only checked for
unknown explicit keywords.
"""
import ast

from .model import FuncInfo, ClassInfo, walk_no_nested, norm


def _sig(fn: ast.FunctionDef, bound: bool):
    a = fn.args
    pos = [x.arg for x in a.posonlyargs + a.args]
    if bound and pos:
        pos = pos[1:]
    n_def = len(a.defaults)
    required = pos[:len(pos) - n_def] if n_def else list(pos)
    kwonly = [x.arg for x in a.kwonlyargs]
    kwreq = [x.arg for x, d in zip(a.kwonlyargs, a.kw_defaults) if d is None]
    return pos, required, kwonly, kwreq, a.vararg is not None, a.kwarg is not None


def _ext(repo, cls):
    return [b for b in repo.external_bases(cls) if b not in ("object", "Generic", "SimpleRepr")]


def _decorated_static(fn):
    for d in fn.decorator_list:
        t = norm(d)
        if t in ("staticmethod",):
            return "static"
        if t in ("classmethod",):
            return "class"
        if t in ("property",) or t.endswith(".setter"):
            return "property"
    return None


def binding_errors(call: ast.Call, fn: ast.FunctionDef, bound: bool):
    pos, required, kwonly, kwreq, has_var, has_kw = _sig(fn, bound)
    errs = []
    star = any(isinstance(x, ast.Starred) for x in call.args)
    dstar = any(k.arg is None for k in call.keywords)
    npos = len([x for x in call.args if not isinstance(x, ast.Starred)])
    if not has_var and npos > len(pos):
        errs.append(f"{npos} positional arguments for {len(pos)} positional parameters ({', '.join(pos)})")
    given = set(pos[:npos])
    for k in call.keywords:
        if k.arg is None:
            continue
        if k.arg not in pos and k.arg not in kwonly and not has_kw:
            errs.append(f"unknown keyword `{k.arg}`")
        elif k.arg in given:
            errs.append(f"parameter `{k.arg}` given twice")
        given.add(k.arg)
    if not star and not dstar:
        miss = [p for p in required + kwreq if p not in given]
        if miss:
            errs.append(f"missing required parameter(s) {', '.join(miss)}")
    return errs


def call_sites(repo, module):
    """yield (enclosing FuncInfo or None, call, callee FunctionDef, bound?, description)"""
    for f in repo.all_functions(module):
        cls = getattr(f, "cls", None)
        for c in walk_no_nested(f.node):
            if not isinstance(c, ast.Call):
                continue
            tgt = None
            bound = False
            fx = c.func
            if isinstance(fx, ast.Attribute) and isinstance(fx.value, ast.Name) and fx.value.id == "self" and cls is not None:
                if _ext(repo, cls) or any("__getattr__" in k.methods for k in repo.mro(cls)):
                    continue
                # skip attributes assigned as instance fields (callbacks)
                if any(isinstance(t, ast.Attribute) and isinstance(t.value, ast.Name) and t.value.id == "self" and t.attr == fx.attr
                       for k in repo.mro(cls) for m in k.methods.values() for a in ast.walk(m.node) if isinstance(a, (ast.Assign, ast.AnnAssign, ast.AugAssign))
                       for t in (a.targets if isinstance(a, ast.Assign) else [a.target])):
                    continue
                # a subclass may override with another signature: only check when every override in the repo agrees is too strong; use the static class's MRO
                m = repo.lookup_method(cls, fx.attr)
                if m is None:
                    continue
                kind = _decorated_static(m.node)
                if kind == "property":
                    continue
                tgt, bound = m, kind != "static"
            else:
                try:
                    r = repo.resolve_expr(module, fx)
                except Exception:
                    r = None
                if isinstance(r, FuncInfo) and getattr(r, "cls", None) is None:
                    tgt, bound = r, False
                elif isinstance(r, ClassInfo):
                    if _ext(repo, r):
                        continue
                    if any(k.name.endswith("Meta") or "metaclass" in norm(k.node)[:200] for k in repo.mro(r) if hasattr(k, "node")):
                        pass
                    init = repo.lookup_method(r, "__init__")
                    new = repo.lookup_method(r, "__new__")
                    if init is None or new is not None:
                        continue
                    tgt, bound = init, True
            if tgt is None:
                continue
            if tgt.node.decorator_list and _decorated_static(tgt.node) is None and not bound:
                # unknown decorator may change the signature
                if any(norm(d) not in ("staticmethod", "classmethod") for d in tgt.node.decorator_list):
                    continue
            yield f, c, tgt, bound


# confirmed by reading; one line of reason each (callee fq, caller qualname)
EXCEPTIONS = {
    ("pydcop.infrastructure.agents:ResilientAgent._on_repair_done", "ResilientAgent._on_repair_computation_finished"):
        "placeholder hook: every agent class the runtime instantiates (ResilientOrchestratedAgent) overrides it with (selected, metrics)",
    ("pydcop.algorithms.maxsum:MaxSumMessage.__init__", "DynamicFactorComputation._send_add_var_msg"):
        "maxsum_dynamic is a stale module written against an older MaxSumMessage (known finding F24)",
    ("pydcop.algorithms.maxsum:MaxSumMessage.__init__", "DynamicFactorComputation._send_remove_var_msg"):
        "maxsum_dynamic is a stale module written against an older MaxSumMessage (known finding F24)",
    ("pydcop.algorithms:AlgorithmDef.__init__", "build_algo_def"):
        "dead branch: load_algorithm_module always defines algo_params, so `hasattr(algo_module, 'algo_params')` is always true",
}
RULE = "R-BIND"
RULE_TEXT = "every call in the consulted modules whose callee resolves inside the repository binds to the callee's signature (arity, keywords, required parameters)"


def check_bindings(ctx):
    """cross-cutting necessary condition, run after every property's own rules over the modules that check consulted:
    an ill-bound call raises TypeError on the path that reaches it, whatever the property"""
    repo = ctx.repo
    ctx.rule(RULE, RULE_TEXT)
    n = 0
    for mn in sorted(ctx.consulted):
        if mn not in repo.modules and not mn.startswith("pydcop"):
            continue
        try:
            m = repo.module(mn)
        except Exception:
            continue
        for f, c, tgt, bound in call_sites(repo, m):
            n += 1
            errs = binding_errors(c, tgt.node, bound)
            if errs and (tgt.fq, f.qualname) in EXCEPTIONS:
                continue
            if errs:
                ctx.bad(RULE, f"{f.qualname} -> {tgt.qualname}", f, c, f"`{norm(c)[:100]}`: {'; '.join(errs)} (callee {tgt.fq}): TypeError when this line runs")
            else:
                ctx.ok(RULE, f"{f.qualname} -> {tgt.qualname}", f, c, sample=False)
    return n
