"""Per-iteration freshness of message payloads.

A mutable local (list / dict / set display, comprehension or constructor call) that is grown inside a loop
(.append / .extend / .add / .update / item store) and handed to a message constructor or to post_msg inside the same
loop must be (re)bound inside that loop: otherwise every iteration sends the accumulated content of the previous ones
(and, in-process, the very same object already handed to the previous recipient).
"""
import ast

from .model import walk_no_nested, norm

_GROW = {"append", "extend", "add", "update", "insert", "setdefault"}


def _mutated_names(loop):
    out = {}
    for x in walk_no_nested(loop):
        if isinstance(x, ast.Call) and isinstance(x.func, ast.Attribute) and x.func.attr in _GROW and isinstance(x.func.value, ast.Name):
            out.setdefault(x.func.value.id, x)
        elif isinstance(x, (ast.Assign, ast.AugAssign)):
            for t in (x.targets if isinstance(x, ast.Assign) else [x.target]):
                if isinstance(t, ast.Subscript) and isinstance(t.value, ast.Name):
                    out.setdefault(t.value.id, x)
    return out


def _bound_in(loop, name):
    for x in walk_no_nested(loop):
        if x is loop:
            continue
        if isinstance(x, (ast.Assign, ast.AnnAssign)):
            for t in (x.targets if isinstance(x, ast.Assign) else [x.target]):
                for n in ast.walk(t):
                    if isinstance(n, ast.Name) and n.id == name and isinstance(n.ctx, ast.Store) and not isinstance(t, ast.Subscript):
                        return True
        elif isinstance(x, (ast.For, ast.comprehension)) and any(isinstance(n, ast.Name) and n.id == name for n in ast.walk(x.target)):
            return True
        elif isinstance(x, ast.With):
            for it in x.items:
                if it.optional_vars is not None and any(isinstance(n, ast.Name) and n.id == name for n in ast.walk(it.optional_vars)):
                    return True
    return False


def stale_payloads(func_node, is_send):
    """yield (loop, send call, name, mutation) for every payload local grown in `loop`, used in a send inside `loop`, and bound only outside it.
    Only the innermost loop containing both the send and a mutation is reported."""
    res = []
    params = {a.arg for a in func_node.args.args + func_node.args.kwonlyargs}
    loops = [l for l in walk_no_nested(func_node) if isinstance(l, (ast.For, ast.While))]
    for l in loops:
        muts = _mutated_names(l)
        if not muts:
            continue
        for c in walk_no_nested(l):
            if not (isinstance(c, ast.Call) and is_send(c)):
                continue
            used = {n.id for a in list(c.args) + [k.value for k in c.keywords] for n in ast.walk(a) if isinstance(n, ast.Name)}
            # payload built in a local first: msg = M(xs); post_msg(t, msg)
            for n in list(used):
                for a in walk_no_nested(l):
                    if isinstance(a, ast.Assign) and len(a.targets) == 1 and isinstance(a.targets[0], ast.Name) and a.targets[0].id == n:
                        used |= {m.id for m in ast.walk(a.value) if isinstance(m, ast.Name)}
            for n in sorted(used & set(muts)):
                if n in params or _bound_in(l, n):
                    continue
                res.append((l, c, n, muts[n]))
    return res


_SENDS = ("post_msg", "post_to_all_neighbors", "send_msg", "message_sender", "send_to_directory", "_send_mgt_msg")


def is_send(c):
    return isinstance(c.func, ast.Attribute) and c.func.attr in _SENDS


def check_fresh_payloads(ctx, rule, module_names, min_sends=1):
    """arm the rule over every function of the given modules; the floor is on the number of in-loop sends examined"""
    repo = ctx.repo
    n = 0
    for mn in module_names:
        m = repo.module(mn)
        for f in repo.all_functions(m):
            loops = [l for l in walk_no_nested(f.node) if isinstance(l, (ast.For, ast.While))]
            sends = {id(c): c for l in loops for c in walk_no_nested(l) if isinstance(c, ast.Call) and is_send(c)}
            if not sends:
                continue
            ctx.touch(f)
            bad = {id(c): (n_, mu) for l, c, n_, mu in stale_payloads(f.node, is_send)}
            for k, c in sends.items():
                n += 1
                if k in bad:
                    ctx.bad(rule, f"{f.qualname}: payload `{bad[k][0]}` of the message sent in a loop is rebuilt for every iteration", f, c,
                            f"`{bad[k][0]}` is grown inside the loop (`{norm(bad[k][1])[:80]}`) but bound outside it: each recipient gets the accumulated content of the previous "
                            "iterations (in-process even the same object)")
                else:
                    ctx.ok(rule, f"{f.qualname}: in-loop send at {norm(c.func)}", f, c)
    if n < min_sends:
        ctx.defer(f"{rule}: only {n} in-loop sends found in {module_names} (expected >= {min_sends})")
    return n
