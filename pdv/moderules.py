"""R-MODE - objective (min/max) propagation and comparator coherence.

All matchers are semantic: they work on dominating guards (with short-circuit
guards inside boolean expressions), not on statement text or position.
"""
import ast
from typing import Dict, List, Optional, Tuple

from .model import walk_no_nested, norm, call_name, FuncInfo, is_self_attr
from .facts import FuncFacts, facts_at

ORD = {ast.Lt: "<", ast.Gt: ">", ast.LtE: "<=", ast.GtE: ">="}
SWAP = {"<": ">", ">": "<", "<=": ">=", ">=": "<="}


def is_mode_expr(e: ast.AST) -> bool:
    t = norm(e)
    return t in ("mode", "self.mode", "self._mode", "self.__mode__") or t.endswith(".algo.mode") or t.endswith(".mode") or t.endswith("_mode")


def mode_of_fact(test: ast.AST, pol: bool) -> Optional[str]:
    """'min' / 'max' when the fact pins the optimisation mode."""
    if isinstance(test, ast.Compare) and len(test.ops) == 1 and isinstance(test.ops[0], (ast.Eq, ast.NotEq)):
        l, r = test.left, test.comparators[0]
        if isinstance(l, ast.Constant) and is_mode_expr(r):
            l, r = r, l
        if is_mode_expr(l) and isinstance(r, ast.Constant) and r.value in ("min", "max"):
            eq = isinstance(test.ops[0], ast.Eq)
            same = (eq == pol)
            if same:
                return r.value
            return "max" if r.value == "min" else "min"
    return None


def _sibling_conjuncts(ff: FuncFacts, node):
    """Operands that hold together with `node` when the enclosing test is
    true: every other operand of each `and` between the statement's test and
    the node (whatever their order)."""
    from .facts import _path_to
    st = ff.stmt(node)
    if st is None or isinstance(node, ast.stmt):
        return []
    out = []
    path = _path_to(st, node)
    for parent, child in zip(path, path[1:]):
        if isinstance(parent, ast.BoolOp) and isinstance(parent.op, ast.And):
            out += [v for v in parent.values if v is not child]
        if isinstance(parent, ast.BinOp) and isinstance(parent.op, ast.BitAnd):
            out += [v for v in (parent.left, parent.right) if v is not child]
    return out


def mode_at(ff: FuncFacts, node) -> Optional[str]:
    modes = set()
    for t, p in facts_at(ff, node):
        m = mode_of_fact(t, p)
        if m:
            modes.add(m)
    if not modes:
        for t in _sibling_conjuncts(ff, node):
            m = mode_of_fact(t, True)
            if m:
                modes.add(m)
    if len(modes) == 1:
        return modes.pop()
    return None


def inf_sign(e: ast.AST) -> Optional[int]:
    """+1 for +inf, -1 for -inf, None otherwise."""
    sign = 1
    while isinstance(e, ast.UnaryOp) and isinstance(e.op, (ast.USub, ast.UAdd)):
        if isinstance(e.op, ast.USub):
            sign = -sign
        e = e.operand
    t = norm(e)
    if t in ("float('inf')", "float('infinity')", "math.inf", "np.inf", "numpy.inf", "INFINITY", "inf", "float('+inf')", "np.infty"):
        return sign
    if t in ("float('-inf')",):
        return -sign
    return None


def _enclosing_if(func_node, node) -> Optional[ast.If]:
    """Innermost `if` statement whose *test* contains node."""
    best = None
    for n in ast.walk(func_node):
        if isinstance(n, ast.If) and any(x is node for x in ast.walk(n.test)):
            best = n
    return best


def _assigned_names(stmts: List[ast.stmt]) -> Dict[str, ast.AST]:
    out = {}
    for st in stmts:
        for n in ast.walk(st):
            if isinstance(n, ast.Assign):
                for t in n.targets:
                    elts = t.elts if isinstance(t, (ast.Tuple, ast.List)) else [t]
                    vals = n.value.elts if isinstance(t, (ast.Tuple, ast.List)) and isinstance(n.value, (ast.Tuple, ast.List)) and len(n.value.elts) == len(elts) else [n.value] * len(elts)
                    for e, v in zip(elts, vals):
                        out[norm(e)] = v
    return out


class CmpFact:
    def __init__(self, node, mode, cand, op, acc, strict, stmt):
        self.node, self.mode, self.cand, self.op, self.acc, self.strict, self.stmt = node, mode, cand, op, acc, strict, stmt


def accumulator_compares(f: FuncInfo) -> List[CmpFact]:
    """Ordering comparisons `cand OP acc` where acc is re-assigned (from cand
    or from an expression built on the same operands) in the body of the `if`
    whose test holds the comparison."""
    ff = FuncFacts(f.node)
    out = []
    for c in ast.walk(f.node):
        if not (isinstance(c, ast.Compare) and len(c.ops) == 1 and type(c.ops[0]) in ORD):
            continue
        st = _enclosing_if(f.node, c)
        if st is None:
            continue
        assigned = _assigned_names(st.body)
        l, r = norm(c.left), norm(c.comparators[0])
        op = ORD[type(c.ops[0])]
        acc = cand = None
        if r in assigned and l not in assigned:
            acc, cand = r, l
        elif l in assigned and r not in assigned:
            acc, cand, op = l, r, SWAP[op]
        elif l in assigned and r in assigned:
            continue
        else:
            continue
        mode = mode_at(ff, c)
        out.append(CmpFact(c, mode, cand, op, acc, op in ("<", ">"), st))
    return out


def check_comparator_coherence(ctx, f: FuncInfo, rule: str, need_both=True, need_strict=False, min_instances=1) -> int:
    """R-MODE(b): each accumulator update is `cand < acc` under min and
    `cand > acc` under max; both modes are handled for every accumulator."""
    ctx.touch(f)
    facts = accumulator_compares(f)
    by_acc: Dict[str, Dict[str, CmpFact]] = {}
    n = 0
    for cf in facts:
        if cf.mode is None:
            continue
        n += 1
        want = "<" if cf.mode == "min" else ">"
        okd = cf.op[0] == want
        ctx.check(okd, rule, f"{f.qualname}: {cf.acc} updated under {cf.mode}", f, cf.stmt,
                  f"under mode '{cf.mode}' the running optimum '{cf.acc}' must be replaced when the candidate is "
                  f"{'smaller' if cf.mode == 'min' else 'greater'}; found `{cf.cand} {cf.op} {cf.acc}`")
        if need_strict:
            ctx.check(cf.strict, rule, f"{f.qualname}: strict improvement on {cf.acc} under {cf.mode}", f, cf.stmt,
                      f"ties must not replace the running optimum (they are collected by the equality branch); found `{cf.op}`")
        by_acc.setdefault(cf.acc, {})[cf.mode] = cf
    if need_both:
        for acc, d in by_acc.items():
            ctx.check(set(d) == {"min", "max"}, rule, f"{f.qualname}: {acc} handles both objectives", f, next(iter(d.values())).stmt,
                      f"the running optimum '{acc}' is only updated for mode(s) {sorted(d)}")
    if n < min_instances:
        ctx.bad(rule, f"{f.qualname}: mode-guarded optimum update", f, f.node,
                "no mode-guarded update of a running optimum found: the function no longer distinguishes min from max")
    return n


def check_init_identity(ctx, f: FuncInfo, rule: str, accs: List[str] = None, min_instances=1) -> int:
    """R-MODE(c): +inf is the identity under min, -inf under max."""
    ctx.touch(f)
    ff = FuncFacts(f.node)
    n = 0
    unguarded: Dict[str, Tuple[int, ast.AST]] = {}
    guarded: Dict[str, List[Tuple[str, int, ast.AST]]] = {}
    for st in walk_no_nested(f.node):
        if not isinstance(st, ast.Assign):
            continue
        for t in st.targets:
            elts = t.elts if isinstance(t, (ast.Tuple, ast.List)) else [t]
            vals = st.value.elts if isinstance(t, (ast.Tuple, ast.List)) and isinstance(st.value, (ast.Tuple, ast.List)) and len(st.value.elts) == len(elts) else [st.value] * len(elts)
            for e, v in zip(elts, vals):
                name = norm(e)
                if accs is not None and name not in accs:
                    continue
                if isinstance(v, ast.IfExp):
                    m = mode_of_fact(v.test, True)
                    sb, so = inf_sign(v.body), inf_sign(v.orelse)
                    if m and sb is not None and so is not None:
                        n += 1
                        want_b = 1 if m == "min" else -1
                        ctx.check(sb == want_b and so == -want_b, rule, f"{f.qualname}: {name} identity", f, st,
                                  "the running optimum must start at +inf when minimising and -inf when maximising")
                    continue
                s = inf_sign(v)
                if s is None:
                    continue
                if ff.in_loop(st):
                    continue
                m = mode_at(ff, st)
                if m is None:
                    unguarded[name] = (s, st)
                else:
                    guarded.setdefault(name, []).append((m, s, st))
    for name, lst in guarded.items():
        for m, s, st in lst:
            n += 1
            ctx.check(s == (1 if m == "min" else -1), rule, f"{f.qualname}: {name} identity under {m}", f, st,
                      f"under mode '{m}' the running optimum must start at {'+inf' if m == 'min' else '-inf'}")
        modes = {m for m, _, _ in lst}
        if name in unguarded and len(modes) == 1:
            s, st = unguarded[name]
            other = "max" if "min" in modes else "min"
            n += 1
            ctx.check(s == (1 if other == "min" else -1), rule, f"{f.qualname}: {name} default identity ({other})", f, st,
                      f"the default initial value serves mode '{other}' and must be {'+inf' if other == 'min' else '-inf'}")
    for name, (s, st) in unguarded.items():
        if name not in guarded:
            # a single unguarded infinite start: only sound if the function compares in one direction only
            pass
    if n < min_instances:
        ctx.bad(rule, f"{f.qualname}: mode-dependent identity", f, f.node,
                "no mode-dependent +/-inf initialisation of the running optimum found (a finite sentinel cannot bound arbitrary costs)")
    return n


def check_minmax_selection(ctx, f: FuncInfo, rule: str, min_instances=0) -> int:
    """`min if mode == 'min' else max` selections agree with their test."""
    ctx.touch(f)
    n = 0
    for e in ast.walk(f.node):
        if isinstance(e, ast.IfExp):
            m = mode_of_fact(e.test, True)
            b, o = norm(e.body), norm(e.orelse)
            if m and {b, o} == {"min", "max"}:
                n += 1
                ctx.check(b == m, rule, f"{f.qualname}: builtin selected by mode", f, e,
                          f"`{norm(e)}` selects `{b}` when the mode is '{m}'")
    ff = FuncFacts(f.node)
    for c in ast.walk(f.node):
        if isinstance(c, ast.Call) and isinstance(c.func, ast.Name) and c.func.id in ("min", "max"):
            m = mode_at(ff, c)
            if m:
                n += 1
                ctx.check(c.func.id == m, rule, f"{f.qualname}: {c.func.id}() under mode {m}", f, c,
                          f"`{c.func.id}(...)` is evaluated on the branch where the mode is '{m}'")
    if n < min_instances:
        ctx.bad(rule, f"{f.qualname}: min/max selection by mode", f, f.node, "no mode-dependent min/max selection found")
    return n


MODE_HELPERS = {
    # helper -> index of the mode parameter (positional) / keyword name
    "projection": (2, "mode"), "find_arg_optimal": (2, "mode"), "find_optimal": (3, "mode"), "find_optimum": (1, "mode"),
    "optimal_cost_value": (1, "mode"), "select_value": (2, "mode"), "factor_costs_for_var": (3, "mode"),
    "get_next_assignment": (5, "mode"),
}


def mode_arg_ok(e: ast.AST, f: FuncInfo) -> bool:
    t = norm(e)
    if is_mode_expr(e):
        return True
    if isinstance(e, ast.Name) and e.id in f.params:
        return "mode" in e.id
    return False


def check_mode_args(ctx, funcs: List[FuncInfo], rule: str, helpers: Dict[str, Tuple[int, str]] = None) -> int:
    """R-MODE(a): every call of a mode-parameterised helper passes a mode that
    flows from the algorithm definition (self.mode / self._mode / a mode
    parameter); an omitted argument silently falls back to the helper's default."""
    helpers = helpers or MODE_HELPERS
    n = 0
    for f in funcs:
        for c in ast.walk(f.node):
            if isinstance(c, ast.Call) and call_name(c) in helpers and not (isinstance(c.func, ast.Attribute) and not isinstance(c.func.value, ast.Name)):
                idx, kw = helpers[call_name(c)]
                if isinstance(c.func, ast.Attribute) and is_self_attr(c.func):
                    continue  # a method of the same name
                arg = None
                if len(c.args) > idx:
                    arg = c.args[idx]
                for k in c.keywords:
                    if k.arg == kw:
                        arg = k.value
                n += 1
                ctx.touch(f)
                if arg is None:
                    ctx.bad(rule, f"{call_name(c)}(..) in {f.qualname}", f, c,
                            f"{call_name(c)} is called without its mode argument: the helper's default objective is used whatever the problem's objective")
                else:
                    ctx.check(mode_arg_ok(arg, f), rule, f"{call_name(c)}(.., {norm(arg)}) in {f.qualname}", f, c,
                              f"the mode passed to {call_name(c)} must come from the algorithm definition, found `{norm(arg)}`")
    return n
