"""No two differently named local containers that are both grown denote the same object.

Flags (a) chained assignments `a = b = <mutable>` and (b) `a = b` where b is a local bound to a mutable construction,
when both names are mutated afterwards (append / add / update / item store / setdefault) in the same function.
"""
import ast

from .model import walk_no_nested, norm

_GROW = {"append", "extend", "add", "update", "insert", "setdefault", "pop", "remove", "clear"}


def _is_mutable_ctor(v):
    if isinstance(v, (ast.List, ast.Dict, ast.Set, ast.ListComp, ast.DictComp, ast.SetComp)):
        return True
    return isinstance(v, ast.Call) and isinstance(v.func, ast.Name) and v.func.id in ("list", "dict", "set", "defaultdict", "OrderedDict", "deque", "Counter")


def _mutated(func_node):
    out = set()
    for x in walk_no_nested(func_node):
        if isinstance(x, ast.Call) and isinstance(x.func, ast.Attribute) and x.func.attr in _GROW:
            r = x.func.value
            while isinstance(r, ast.Subscript):
                r = r.value
            if isinstance(r, ast.Name):
                out.add(r.id)
        elif isinstance(x, (ast.Assign, ast.AugAssign)):
            for t in (x.targets if isinstance(x, ast.Assign) else [x.target]):
                if isinstance(t, ast.Subscript):
                    r = t.value
                    while isinstance(r, ast.Subscript):
                        r = r.value
                    if isinstance(r, ast.Name):
                        out.add(r.id)
    return out


def aliased_containers(func_node):
    mut = _mutated(func_node)
    ctor = {}
    res = []
    for x in walk_no_nested(func_node):
        if not isinstance(x, ast.Assign):
            continue
        names = [t.id for t in x.targets if isinstance(t, ast.Name)]
        if len(names) >= 2 and _is_mutable_ctor(x.value) and len([n for n in names if n in mut]) >= 2:
            res.append((x, names))
        if len(names) == 1 and _is_mutable_ctor(x.value):
            ctor[names[0]] = x
        if len(names) == 1 and isinstance(x.value, ast.Name) and x.value.id in ctor and names[0] != x.value.id and names[0] in mut and x.value.id in mut:
            res.append((x, [names[0], x.value.id]))
    return res


def check_no_alias(ctx, rule, funcs):
    n = 0
    for f in funcs:
        built = [x for x in walk_no_nested(f.node) if isinstance(x, ast.Assign) and _is_mutable_ctor(x.value)]
        if not built:
            continue
        n += len(built)
        al = aliased_containers(f.node)
        ctx.check(not al, rule, f"{f.qualname}: {len(built)} containers built, each under one name", f, al[0][0] if al else f.node,
                  (f"`{'`, `'.join(al[0][1])}` denote the same object: what is added under one name appears under the other") if al else "")
    return n
