"""Recognisers for loop idioms that several rules need to see through, whatever way the loop is written."""
import ast
from typing import List, Optional, Tuple

from .model import norm


def _resolve(fnode, e):
    """a local bound exactly once to an expression -> that expression"""
    if isinstance(e, ast.Name):
        defs = [s for s in ast.walk(fnode) if isinstance(s, ast.Assign) and len(s.targets) == 1 and isinstance(s.targets[0], ast.Name) and s.targets[0].id == e.id]
        stores = [n for n in ast.walk(fnode) if isinstance(n, ast.Name) and n.id == e.id and isinstance(n.ctx, ast.Store)]
        if len(defs) == 1 and len(stores) == 1:
            return defs[0].value
    return e


def consecutive_pairs(fnode, body: List[ast.stmt]) -> Optional[Tuple[str, str, ast.AST, List[ast.stmt], ast.AST]]:
    """the loop of `body` that visits the consecutive pairs (x[i], x[i+1]) of a sequence, in order:
    -> (text naming the earlier element, text naming the later element, the sequence expression (locals resolved), the statements run per pair, the loop)
    recognised: `for a, b in zip(X[:-1], X[1:])` / `zip(X, X[1:])`; `prev = None; for cur in S: if prev is not None: ...; prev = cur`;
    `for i in range(len(X) - 1): ... X[i] ... X[i + 1]`."""
    loops = [(k, l) for k, l in enumerate(body) if isinstance(l, ast.For)]
    for k, l in loops:
        it = l.iter
        # zip forms
        if isinstance(it, ast.Call) and isinstance(it.func, ast.Name) and it.func.id == "zip" and len(it.args) == 2 and isinstance(l.target, ast.Tuple) and len(l.target.elts) == 2 \
                and all(isinstance(e, ast.Name) for e in l.target.elts):
            a0, a1 = norm(it.args[0]), norm(it.args[1])
            if a1.endswith("[1:]") and a0 in (a1[:-4], a1[:-4] + "[:-1]"):
                src = it.args[1].value
                return l.target.elts[0].id, l.target.elts[1].id, _resolve(fnode, src), list(l.body), l
        # previous-element form
        if isinstance(l.target, ast.Name) and l.body and isinstance(l.body[-1], ast.Assign) and len(l.body[-1].targets) == 1 and isinstance(l.body[-1].targets[0], ast.Name) \
                and norm(l.body[-1].value) == l.target.id and not l.orelse:
            prev = l.body[-1].targets[0].id
            init = [s for s in body[:k] if isinstance(s, ast.Assign) and len(s.targets) == 1 and norm(s.targets[0]) == prev]
            stores = [n for n in ast.walk(fnode) if isinstance(n, ast.Name) and n.id == prev and isinstance(n.ctx, ast.Store)]
            rest = l.body[:-1]
            if len(init) == 1 and norm(init[0].value) == "None" and len(stores) == 2 and len(rest) == 1 and isinstance(rest[0], ast.If) and not rest[0].orelse \
                    and norm(rest[0].test) in (f"{prev} is not None", f"{prev} != None"):
                return prev, l.target.id, _resolve(fnode, it), list(rest[0].body), l
        # index form
        if isinstance(l.target, ast.Name) and isinstance(it, ast.Call) and isinstance(it.func, ast.Name) and it.func.id == "range" and len(it.args) == 1:
            t = norm(it.args[0])
            if t.startswith("len(") and t.endswith(") - 1"):
                x = t[4:-5]
                i = l.target.id
                return f"{x}[{i}]", f"{x}[{i} + 1]", _resolve(fnode, ast.parse(x, mode="eval").body), list(l.body), l
    return None


def attr_getter(e, attr: str) -> bool:
    """`lambda p: p.<attr>` for any parameter name, or (operator.)attrgetter('<attr>')"""
    if isinstance(e, ast.Lambda) and len(e.args.args) == 1 and not e.args.defaults:
        return norm(e.body) == f"{e.args.args[0].arg}.{attr}"
    return norm(e) in (f"attrgetter('{attr}')", f"operator.attrgetter('{attr}')")
