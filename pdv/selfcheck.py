"""setup_cmd: parse /repo, build the source model, verify that it is usable.
Nothing to install: the checker only needs /venv/bin/python's stdlib."""
import sys
import os
sys.dont_write_bytecode = True
from .model import Repo


def main():
    r = Repo()
    n_cls = sum(len(m.classes) for m in r.modules.values())
    n_fn = sum(1 for _ in r.all_functions())
    print(f"pdv selfcheck: modules={len(r.modules)} classes={n_cls} functions={n_fn} "
          f"message_types={len(r.message_types())} parse_errors={len(r.parse_errors)}")
    return 0 if r.modules and not r.parse_errors else 2


if __name__ == "__main__":
    sys.exit(main())
