"""E2 - syntax-directed guard / effect extraction and path-count analysis.

``guards_of(func)`` maps every statement (and expression node on request) of a
function to the list of branch conditions, with polarity, that dominate it:
if/elif/else nesting, implicit negation after an ``if c: return|raise|continue|
break`` clause, loop context, ``try``/``except`` context.

``count_paths`` is an interval analysis over structured control flow: for a
predicate on statements it computes, for each way a statement list can be left
(fallthrough / return / raise / break / continue), the minimum and maximum
number of predicate hits over all syntactic paths.  It decides
must-pass-through (min >= 1), at-most-once (max <= 1) and exactly-once.
"""
import ast
from typing import Callable, Dict, List, Optional, Tuple

from .model import walk_no_nested, norm

INF = 10 ** 9


class Guard:
    __slots__ = ("kind", "test", "pol", "node")

    def __init__(self, kind, test, pol, node):
        self.kind = kind   # 'if' | 'while' | 'for' | 'except' | 'try' | 'with' | 'else-loop'
        self.test = test   # ast expr (cond / iter / handler type) or None
        self.pol = pol     # True / False
        self.node = node

    def text(self):
        t = norm(self.test) if self.test is not None else ""
        if self.kind == "if":
            return t if self.pol else f"not ({t})"
        return f"{self.kind}:{t}"

    def __repr__(self):
        return f"<G {self.text()}>"


def _always_exits(stmts: List[ast.stmt]) -> bool:
    """True when the statement list cannot fall through (ends, on every
    syntactic path, with return / raise / continue / break)."""
    for st in stmts:
        if isinstance(st, (ast.Return, ast.Raise, ast.Continue, ast.Break)):
            return True
        if isinstance(st, ast.If):
            if st.orelse and _always_exits(st.body) and _always_exits(st.orelse):
                return True
        if isinstance(st, ast.Try):
            if st.finalbody and _always_exits(st.finalbody):
                return True
            body_exits = _always_exits(st.body + st.orelse) if st.orelse else _always_exits(st.body)
            if body_exits and all(_always_exits(h.body) for h in st.handlers):
                return True
        if isinstance(st, ast.With):
            if _always_exits(st.body):
                return True
    return False


def guards_of(func_node: ast.AST) -> Dict[int, List[Guard]]:
    """id(stmt) -> dominating guards (outermost first).  Nested function
    definitions are entered (their statements inherit the guards of the def
    statement plus a 'def' marker)."""
    out: Dict[int, List[Guard]] = {}

    def block(stmts, gs):
        gs = list(gs)
        for st in stmts:
            out[id(st)] = list(gs)
            visit(st, gs)
            # implicit negation after an exiting if-clause
            if isinstance(st, ast.If):
                b_exit = _always_exits(st.body)
                e_exit = bool(st.orelse) and _always_exits(st.orelse)
                if b_exit and not e_exit:
                    gs = gs + [Guard("if", st.test, False, st)]
                elif e_exit and not b_exit:
                    gs = gs + [Guard("if", st.test, True, st)]

    def visit(st, gs):
        if isinstance(st, ast.If):
            block(st.body, gs + [Guard("if", st.test, True, st)])
            block(st.orelse, gs + [Guard("if", st.test, False, st)])
        elif isinstance(st, (ast.For, ast.AsyncFor)):
            block(st.body, gs + [Guard("for", st.iter, True, st)])
            block(st.orelse, gs + [Guard("else-loop", st.iter, True, st)])
        elif isinstance(st, ast.While):
            block(st.body, gs + [Guard("while", st.test, True, st)])
            block(st.orelse, gs + [Guard("else-loop", st.test, False, st)])
        elif isinstance(st, ast.Try):
            block(st.body, gs + [Guard("try", None, True, st)])
            for h in st.handlers:
                out[id(h)] = list(gs)
                block(h.body, gs + [Guard("except", h.type, True, h)])
            block(st.orelse, gs + [Guard("try-else", None, True, st)])
            block(st.finalbody, gs)
        elif isinstance(st, (ast.With, ast.AsyncWith)):
            block(st.body, gs + [Guard("with", st.items[0].context_expr, True, st)])
        elif isinstance(st, (ast.FunctionDef, ast.AsyncFunctionDef)):
            block(st.body, gs + [Guard("def", None, True, st)])
        elif isinstance(st, ast.ClassDef):
            block(st.body, gs + [Guard("class", None, True, st)])

    if isinstance(func_node, (ast.FunctionDef, ast.AsyncFunctionDef)):
        block(func_node.body, [])
    else:
        block(list(func_node), [])
    return out


def stmt_of(func_node: ast.AST) -> Dict[int, ast.stmt]:
    """id(any node inside func) -> the innermost *statement* containing it."""
    out = {}

    def rec(st):
        for n in ast.walk(st):
            if isinstance(n, ast.stmt) and n is not st:
                continue
        # innermost mapping: walk children, statements override
    # simple implementation: process statements outermost first so that inner
    # statements overwrite
    def assign(st):
        for child in ast.iter_child_nodes(st):
            if isinstance(child, ast.stmt):
                out[id(child)] = child
                assign(child)
            elif isinstance(child, (ast.ExceptHandler,)):
                out[id(child)] = st
                assign_handler(child, st)
            else:
                for n in ast.walk(child):
                    out[id(n)] = st
                    # statements nested in expressions do not exist (lambdas hold exprs)

    def assign_handler(h, st):
        for child in ast.iter_child_nodes(h):
            if isinstance(child, ast.stmt):
                out[id(child)] = child
                assign(child)
            else:
                for n in ast.walk(child):
                    out[id(n)] = st

    out[id(func_node)] = func_node
    assign(func_node)
    return out


class FuncFacts:
    """Guards + node->stmt maps of one function, with convenience queries."""

    def __init__(self, func_node):
        self.node = func_node
        self.guards = guards_of(func_node)
        self.stmt_map = stmt_of(func_node)

    def stmt(self, node) -> ast.stmt:
        return self.stmt_map.get(id(node))

    def guards_at(self, node) -> List[Guard]:
        st = node if isinstance(node, ast.stmt) else self.stmt(node)
        gs = list(self.guards.get(id(st), []))
        # an expression inside the *test* of an if/while is not guarded by it;
        # an expression in a ternary / boolop short-circuit gets extra guards
        gs += _expr_guards(st, node)
        return gs

    def conds_at(self, node) -> List[Tuple[ast.AST, bool]]:
        return [(g.test, g.pol) for g in self.guards_at(node) if g.kind in ("if", "while")]

    def in_loop(self, node) -> bool:
        return any(g.kind in ("for", "while") for g in self.guards_at(node))

    def in_except(self, node, exc_name: str = None) -> bool:
        for g in self.guards_at(node):
            if g.kind == "except":
                if exc_name is None or (g.test is not None and exc_name in norm(g.test)):
                    return True
        return False


def _expr_guards(st, node) -> List[Guard]:
    """Guards inside an expression statement: IfExp branches, and/or
    short-circuits, comprehension ifs."""
    if st is None or node is st or isinstance(node, ast.stmt):
        return []
    path = _path_to(st, node)
    gs = []
    for parent, child in zip(path, path[1:]):
        if isinstance(parent, ast.IfExp):
            if child is parent.body:
                gs.append(Guard("if", parent.test, True, parent))
            elif child is parent.orelse:
                gs.append(Guard("if", parent.test, False, parent))
        elif isinstance(parent, ast.BoolOp):
            idx = next((i for i, v in enumerate(parent.values) if v is child), 0)
            for prev in parent.values[:idx]:
                gs.append(Guard("if", prev, isinstance(parent.op, ast.And), parent))
        elif isinstance(parent, (ast.ListComp, ast.SetComp, ast.GeneratorExp, ast.DictComp)):
            for gen in parent.generators:
                if child is not gen:
                    gs.append(Guard("for", gen.iter, True, parent))
                    for c in gen.ifs:
                        gs.append(Guard("if", c, True, parent))
        elif isinstance(parent, ast.comprehension):
            pass
    return gs


def _path_to(root, target) -> List[ast.AST]:
    """Nodes from root down to target (inclusive); [] if not found."""
    if root is target:
        return [root]
    for ch in ast.iter_child_nodes(root):
        if isinstance(ch, ast.stmt) and not isinstance(root, ast.stmt):
            continue
        p = _path_to(ch, target)
        if p:
            return [root] + p
    return []


# ---------------------------------------------------------------------------
# conjunct handling
# ---------------------------------------------------------------------------
def conjuncts(test: ast.AST, pol: bool = True) -> List[Tuple[ast.AST, bool]]:
    """Split a guard into atomic (expr, polarity) facts that are all known to
    hold.  `a and b` (pol True) -> a, b ; `not (a or b)` -> not a, not b."""
    if isinstance(test, ast.UnaryOp) and isinstance(test.op, ast.Not):
        return conjuncts(test.operand, not pol)
    if isinstance(test, ast.BoolOp):
        if isinstance(test.op, ast.And) and pol:
            out = []
            for v in test.values:
                out += conjuncts(v, True)
            return out
        if isinstance(test.op, ast.Or) and not pol:
            out = []
            for v in test.values:
                out += conjuncts(v, False)
            return out
    return [(test, pol)]


def facts_at(ff: FuncFacts, node) -> List[Tuple[ast.AST, bool]]:
    out = []
    for t, p in ff.conds_at(node):
        out += conjuncts(t, p)
    return out


_NEG = {ast.Lt: ast.GtE, ast.GtE: ast.Lt, ast.Gt: ast.LtE, ast.LtE: ast.Gt, ast.Eq: ast.NotEq, ast.NotEq: ast.Eq,
        ast.In: ast.NotIn, ast.NotIn: ast.In, ast.Is: ast.IsNot, ast.IsNot: ast.Is}
_SWAP = {ast.Lt: ast.Gt, ast.Gt: ast.Lt, ast.LtE: ast.GtE, ast.GtE: ast.LtE, ast.Eq: ast.Eq, ast.NotEq: ast.NotEq}
_OPS = {ast.Lt: "<", ast.Gt: ">", ast.LtE: "<=", ast.GtE: ">=", ast.Eq: "==", ast.NotEq: "!=", ast.In: "in",
        ast.NotIn: "not in", ast.Is: "is", ast.IsNot: "is not"}


def compare_fact(test: ast.AST, pol: bool) -> Optional[Tuple[str, str, str]]:
    """(left, op, right) text of a single binary comparison with polarity
    folded into the operator; None if not a simple comparison."""
    if isinstance(test, ast.UnaryOp) and isinstance(test.op, ast.Not):
        return compare_fact(test.operand, not pol)
    if isinstance(test, ast.Compare) and len(test.ops) == 1:
        op = type(test.ops[0])
        if not pol:
            op = _NEG.get(op)
            if op is None:
                return None
        return norm(test.left), _OPS[op], norm(test.comparators[0])
    return None


def compare_holds(facts, left: str, op: str, right: str) -> bool:
    """Is `left op right` among the facts (also in swapped form)?"""
    sw = {"<": ">", ">": "<", "<=": ">=", ">=": "<=", "==": "==", "!=": "!="}
    for t, p in facts:
        cf = compare_fact(t, p)
        if cf is None:
            continue
        if cf == (left, op, right):
            return True
        if op in sw and cf == (right, sw[op], left):
            return True
    return False


# ---------------------------------------------------------------------------
# path counting
# ---------------------------------------------------------------------------
class Outcome:
    """min/max predicate hits per exit kind.  Missing kind = unreachable."""

    def __init__(self):
        self.k: Dict[str, Tuple[int, int]] = {}

    def add(self, kind, lo, hi):
        if kind in self.k:
            a, b = self.k[kind]
            self.k[kind] = (min(a, lo), max(b, hi))
        else:
            self.k[kind] = (lo, min(hi, INF))

    def merge(self, other: "Outcome"):
        for kind, (lo, hi) in other.k.items():
            self.add(kind, lo, hi)

    def __repr__(self):
        return f"<Outcome {self.k}>"


def count_paths(stmts: List[ast.stmt], hit: Callable[[ast.stmt], int],
                raises_escape: bool = True, assume_loop_once: bool = False, hit_first_in_try: bool = False) -> Outcome:
    """Interval of `hit` counts over all syntactic paths through `stmts`.

    hit(stmt) -> number of hits contributed by a *simple* statement (or by the
    header expression of a compound one; compound bodies are recursed).
    Exit kinds: 'fall', 'return', 'raise', 'break', 'continue'.
    A `try` with handlers: the exception may occur anywhere in the body, so a
    handler is entered with any prefix count [0, max(body)].
    """

    def seq(stmts, lo, hi) -> Outcome:
        res = Outcome()
        cur = [(lo, hi)]  # fallthrough intervals (kept merged)
        clo, chi = lo, hi
        alive = True
        for st in stmts:
            if not alive:
                break
            o = one(st)
            alive = False
            nlo, nhi = None, None
            for kind, (a, b) in o.k.items():
                if kind == "fall":
                    alive = True
                    nlo, nhi = clo + a, min(chi + b, INF)
                else:
                    res.add(kind, clo + a, min(chi + b, INF))
            if alive:
                clo, chi = nlo, nhi
        if alive:
            res.add("fall", clo, chi)
        return res

    def one(st) -> Outcome:
        o = Outcome()
        h = hit(st)
        if isinstance(st, ast.Return):
            o.add("return", h, h)
        elif isinstance(st, ast.Raise):
            o.add("raise", h, h)
        elif isinstance(st, ast.Break):
            o.add("break", 0, 0)
        elif isinstance(st, ast.Continue):
            o.add("continue", 0, 0)
        elif isinstance(st, ast.If):
            b = seq(st.body, h, h)
            e = seq(st.orelse, h, h)
            o.merge(b)
            o.merge(e)
        elif isinstance(st, (ast.For, ast.AsyncFor, ast.While)):
            body = seq(st.body, 0, 0)
            # per-iteration interval (fall or continue both loop again)
            it_lo = min([v[0] for k, v in body.k.items() if k in ("fall", "continue")] or [0])
            it_hi = max([v[1] for k, v in body.k.items() if k in ("fall", "continue")] or [0])
            loops_again = any(k in ("fall", "continue") for k in body.k)
            infinite = isinstance(st, ast.While) and isinstance(st.test, ast.Constant) and bool(st.test.value)
            lo0 = it_lo if assume_loop_once else 0
            hi_n = INF if it_hi > 0 else 0
            if not infinite:
                # normal termination then else-clause
                e = seq(st.orelse, h + lo0, min(h + hi_n, INF)) if loops_again or True else Outcome()
                o.merge(e)
            for kind, (a, b) in body.k.items():
                if kind == "break":
                    o.add("fall", h + a, min(h + (INF if it_hi > 0 else b), INF))
                elif kind in ("return", "raise"):
                    o.add(kind, h + a, min(h + (INF if it_hi > 0 else b), INF))
        elif isinstance(st, ast.Try):
            body = seq(st.body, 0, 0)
            body_hi = max([v[1] for v in body.k.values()] or [0])
            pre = Outcome()
            # normal completion of body -> orelse
            for kind, (a, b) in body.k.items():
                if kind == "fall":
                    pre.merge(seq(st.orelse, a, b))
                elif kind == "raise" and st.handlers:
                    # an explicit raise in the body may be caught
                    for hd in st.handlers:
                        pre.merge(seq(hd.body, a, b))
                    if not _catches_all(st.handlers):
                        pre.add(kind, a, b)
                else:
                    pre.add(kind, a, b)
            if st.handlers:
                lead = 0
                if hit_first_in_try:
                    # the obligated calls themselves are assumed not to raise the
                    # caught exception: an exception can only surface after the
                    # leading run of pure obligated-call statements
                    for bs in st.body:
                        if isinstance(bs, ast.Expr) and isinstance(bs.value, ast.Call) and hit(bs) >= 1:
                            lead += hit(bs)
                        else:
                            break
                for hd in st.handlers:
                    pre.merge(seq(hd.body, lead, max(body_hi, lead)))
            if st.finalbody:
                for kind, (a, b) in pre.k.items():
                    f = seq(st.finalbody, a, b)
                    for k2, (c, d) in f.k.items():
                        o.add(kind if k2 == "fall" else k2, c, d)
            else:
                o.merge(pre)
        elif isinstance(st, (ast.With, ast.AsyncWith)):
            o.merge(seq(st.body, h, h))
        elif isinstance(st, (ast.FunctionDef, ast.AsyncFunctionDef, ast.ClassDef)):
            o.add("fall", 0, 0)
        else:
            o.add("fall", h, h)
        return o

    return seq(stmts, 0, 0)


def _catches_all(handlers) -> bool:
    for h in handlers:
        if h.type is None:
            return True
        if isinstance(h.type, ast.Name) and h.type.id in ("Exception", "BaseException"):
            return True
    return False


def calls_hit(pred: Callable[[ast.Call], bool]) -> Callable[[ast.stmt], int]:
    """Build a `hit` function counting calls satisfying pred in the *header*
    of a statement (whole simple statement; test/iter of compound ones)."""

    def header_exprs(st):
        if isinstance(st, ast.If) or isinstance(st, ast.While):
            return [st.test]
        if isinstance(st, (ast.For, ast.AsyncFor)):
            return [st.iter]
        if isinstance(st, (ast.With, ast.AsyncWith)):
            return [i.context_expr for i in st.items]
        if isinstance(st, ast.Try):
            return []
        if isinstance(st, (ast.FunctionDef, ast.AsyncFunctionDef, ast.ClassDef)):
            return []
        return [st]

    def hit(st):
        n = 0
        for e in header_exprs(st):
            for c in walk_no_nested(e):
                if isinstance(c, ast.Call) and pred(c):
                    n += 1
        return n

    return hit


def must_pass(stmts, pred_call, exits=("fall", "return")) -> Tuple[bool, Outcome]:
    o = count_paths(stmts, calls_hit(pred_call))
    ok = all(o.k[k][0] >= 1 for k in exits if k in o.k)
    return ok, o


# ---------------------------------------------------------------------------
# leaf paths of an if-tree
# ---------------------------------------------------------------------------
def if_paths(stmts: List[ast.stmt], facts=()) -> List[Tuple[List[Tuple[ast.AST, bool]], str, Optional[ast.stmt]]]:
    """Every path through a block made of if-trees and straight-line code:
    (atomic facts along the path, exit kind, exit statement) with exit kind in
    fall/return/continue/break/raise.  Loops / try inside the block are opaque
    (treated as straight-line); the caller restricts itself to loop bodies
    whose decisions are plain ifs."""
    out = []

    def seq(stmts, facts):
        if not stmts:
            out.append((list(facts), "fall", None))
            return
        st, rest = stmts[0], stmts[1:]
        if isinstance(st, ast.Return):
            out.append((list(facts), "return", st))
        elif isinstance(st, ast.Continue):
            out.append((list(facts), "continue", st))
        elif isinstance(st, ast.Break):
            out.append((list(facts), "break", st))
        elif isinstance(st, ast.Raise):
            out.append((list(facts), "raise", st))
        elif isinstance(st, ast.If):
            for pol, body in ((True, st.body), (False, st.orelse)):
                seq(list(body) + list(rest), list(facts) + conjuncts(st.test, pol))
        else:
            seq(rest, facts)

    seq(list(stmts), list(facts))
    return out


# ---------------------------------------------------------------------------
# paths with ordered statements
# ---------------------------------------------------------------------------
class Path:
    """One syntactic path through a block of if-trees: the atomic facts known
    to hold, the simple statements executed in order (loops / try / with are
    opaque and appear as one statement), and how the path leaves the block."""
    __slots__ = ("facts", "stmts", "exit", "exit_stmt")

    def __init__(self, facts, stmts, exit, exit_stmt):
        self.facts = facts
        self.stmts = stmts
        self.exit = exit
        self.exit_stmt = exit_stmt

    def fact_texts(self):
        return {(norm(t), p) for t, p in self.facts}

    def has_fact(self, text: str, pol: bool = True) -> bool:
        return (text, pol) in self.fact_texts()

    def compare(self, left: str, op: str, right: str) -> bool:
        return compare_holds(self.facts, left, op, right)

    def index(self, pred) -> int:
        for i, s in enumerate(self.stmts):
            if pred(s):
                return i
        return -1


def stmt_paths(stmts: List[ast.stmt], max_paths: int = 4096) -> List[Path]:
    out: List[Path] = []

    def seq(stmts, facts, done):
        if len(out) > max_paths:
            return
        if not stmts:
            out.append(Path(list(facts), list(done), "fall", None))
            return
        st, rest = stmts[0], stmts[1:]
        if isinstance(st, ast.Return):
            out.append(Path(list(facts), list(done) + [st], "return", st))
        elif isinstance(st, ast.Continue):
            out.append(Path(list(facts), list(done), "continue", st))
        elif isinstance(st, ast.Break):
            out.append(Path(list(facts), list(done), "break", st))
        elif isinstance(st, ast.Raise):
            out.append(Path(list(facts), list(done) + [st], "raise", st))
        elif isinstance(st, ast.If):
            for pol, body in ((True, st.body), (False, st.orelse)):
                seq(list(body) + list(rest), list(facts) + conjuncts(st.test, pol), done)
        else:
            seq(rest, facts, done + [st])

    seq(list(stmts), [], [])
    return out


# --------------------------------------------------------------------------- finite truth tables over guard atoms
def bool_atoms(node) -> List[str]:
    """texts of the atomic conditions (comparisons, names, calls ...) of the tests found in a statement list / expression"""
    out = []

    def atoms_of(e):
        if isinstance(e, ast.BoolOp):
            for v in e.values:
                atoms_of(v)
        elif isinstance(e, ast.UnaryOp) and isinstance(e.op, ast.Not):
            atoms_of(e.operand)
        elif isinstance(e, ast.IfExp):
            atoms_of(e.test)
            atoms_of(e.body)
            atoms_of(e.orelse)
        elif isinstance(e, ast.Constant):
            pass
        else:
            t = ast.unparse(e)
            if t not in out:
                out.append(t)
    nodes = node if isinstance(node, list) else [node]
    for n in nodes:
        for x in ast.walk(n):
            if isinstance(x, (ast.If, ast.While)):
                atoms_of(x.test)
    return out


def eval_bool(e, val: dict):
    """truth value of a test under a valuation of its atoms (None when an atom is missing)"""
    if isinstance(e, ast.BoolOp):
        vs = [eval_bool(v, val) for v in e.values]
        if any(v is None for v in vs):
            return None
        return all(vs) if isinstance(e.op, ast.And) else any(vs)
    if isinstance(e, ast.UnaryOp) and isinstance(e.op, ast.Not):
        v = eval_bool(e.operand, val)
        return None if v is None else not v
    if isinstance(e, ast.IfExp):
        c = eval_bool(e.test, val)
        return None if c is None else eval_bool(e.body if c else e.orelse, val)
    if isinstance(e, ast.Constant):
        return bool(e.value)
    return val.get(ast.unparse(e))


def outcome_under(stmts, val: dict):
    """('fall' | 'return' | 'continue' | 'break' | 'raise' | 'unknown', exit statement) of a block of if-trees under a valuation"""
    for st in stmts:
        if isinstance(st, ast.If):
            c = eval_bool(st.test, val)
            if c is None:
                return "unknown", st
            k, s = outcome_under(st.body if c else st.orelse, val)
            if k != "fall":
                return k, s
        elif isinstance(st, ast.Return):
            return "return", st
        elif isinstance(st, ast.Continue):
            return "continue", st
        elif isinstance(st, ast.Break):
            return "break", st
        elif isinstance(st, ast.Raise):
            return "raise", st
        elif isinstance(st, (ast.For, ast.While, ast.Try, ast.With)):
            return "unknown", st
    return "fall", None


def eval3(e, atom: Callable[[ast.AST], Optional[bool]]):
    """three-valued truth of a test; `atom` decides the leaves (None = unknown) - and may decide a compound test as a whole; and/or short-circuit on a deciding operand"""
    if isinstance(e, (ast.BoolOp, ast.UnaryOp, ast.IfExp)):
        whole = atom(e)
        if whole is not None:
            return whole
    if isinstance(e, ast.BoolOp):
        vs = [eval3(v, atom) for v in e.values]
        if isinstance(e.op, ast.And):
            return False if any(v is False for v in vs) else (None if any(v is None for v in vs) else True)
        return True if any(v is True for v in vs) else (None if any(v is None for v in vs) else False)
    if isinstance(e, ast.UnaryOp) and isinstance(e.op, ast.Not):
        v = eval3(e.operand, atom)
        return None if v is None else not v
    if isinstance(e, ast.IfExp):
        c = eval3(e.test, atom)
        return None if c is None else eval3(e.body if c else e.orelse, atom)
    if isinstance(e, ast.Constant):
        return bool(e.value)
    return atom(e)


def _exits_inside(st) -> bool:
    """a compound statement that may leave the enclosing block other than by falling through"""
    for n in ast.walk(st):
        if isinstance(n, (ast.Return, ast.Raise)):
            return True
        if isinstance(n, (ast.FunctionDef, ast.AsyncFunctionDef, ast.Lambda)):
            continue
    if isinstance(st, (ast.Try, ast.With)):
        return any(isinstance(n, (ast.Break, ast.Continue)) for n in ast.walk(st))
    return False


def exec_under(stmts, atom: Callable[[ast.AST], Optional[bool]], opaque: bool = False):
    """(simple statements executed in order, outcome) of a block of if-trees when the tests are decided by `atom`;
    outcome 'unknown' when a test is undecided or a compound statement other than `if` is met (the statement is the last effect).
    With opaque=True a loop / try / with that cannot leave the block is one effect and execution goes on after it."""
    eff = []
    for st in stmts:
        if isinstance(st, ast.If):
            c = eval3(st.test, atom)
            if c is None:
                return eff + [st], "unknown"
            e, k = exec_under(st.body if c else st.orelse, atom, opaque)
            eff += e
            if k != "fall":
                return eff, k
        elif isinstance(st, ast.Return):
            return eff + [st], "return"
        elif isinstance(st, ast.Continue):
            return eff, "continue"
        elif isinstance(st, ast.Break):
            return eff, "break"
        elif isinstance(st, ast.Raise):
            return eff + [st], "raise"
        elif isinstance(st, (ast.For, ast.While, ast.Try, ast.With, ast.Match)):
            if opaque and not isinstance(st, ast.Match) and not _exits_inside(st):
                eff.append(st)
                continue
            return eff + [st], "unknown"
        elif isinstance(st, ast.Pass) or (isinstance(st, ast.Expr) and isinstance(st.value, ast.Constant)):
            continue
        else:
            eff.append(st)
    return eff, "fall"
