"""E0 - source model of /repo/pydcop built with the stdlib ``ast`` only.

Nothing from pyDcop is ever imported or executed.  The model gives: module
table, import resolution, class table with MRO, per-class method/field tables,
``@register`` handler tables, ``message_type`` classes, module constants.
"""
import ast
import hashlib
import os
import warnings
from typing import Dict, List, Optional, Tuple, Iterable

REPO = os.environ.get("PDV_REPO", "/repo")
PKG = "pydcop"


class AnchorMissing(Exception):
    """An anchor (module / class / function / field) named by a rule table no
    longer exists: the checker cannot see its subject (exit 2)."""


class FuncInfo:
    def __init__(self, module: "ModuleInfo", node, cls: Optional["ClassInfo"] = None, parent=None):
        self.module = module
        self.node = node
        self.cls = cls
        self.parent = parent  # enclosing FuncInfo for nested functions
        self.name = node.name

    @property
    def qualname(self):
        if self.parent is not None:
            return self.parent.qualname + ".<locals>." + self.name
        if self.cls is not None:
            return self.cls.name + "." + self.name
        return self.name

    @property
    def fq(self):
        return self.module.name + ":" + self.qualname

    @property
    def params(self) -> List[str]:
        a = self.node.args
        return [x.arg for x in a.posonlyargs + a.args]

    @property
    def kwonly(self) -> List[str]:
        return [x.arg for x in self.node.args.kwonlyargs]

    @property
    def has_varkw(self):
        return self.node.args.kwarg is not None

    @property
    def has_vararg(self):
        return self.node.args.vararg is not None

    def decorators(self) -> List[str]:
        out = []
        for d in self.node.decorator_list:
            out.append(ast.unparse(d))
        return out

    def is_property(self):
        return any(d == "property" or d.endswith(".setter") for d in self.decorators())

    def register_types(self) -> List[str]:
        out = []
        for d in self.node.decorator_list:
            if isinstance(d, ast.Call) and isinstance(d.func, ast.Name) and d.func.id == "register":
                if d.args and isinstance(d.args[0], ast.Constant):
                    out.append(d.args[0].value)
        return out

    def __repr__(self):
        return f"<Func {self.fq}>"


class ClassInfo:
    def __init__(self, module: "ModuleInfo", node: ast.ClassDef):
        self.module = module
        self.node = node
        self.name = node.name
        self.methods: Dict[str, FuncInfo] = {}
        self.class_attrs: Dict[str, ast.AST] = {}
        self.base_exprs = [ast.unparse(b) for b in node.bases]
        for st in node.body:
            if isinstance(st, (ast.FunctionDef, ast.AsyncFunctionDef)):
                # property getter wins over setter for lookup by name
                if st.name in self.methods:
                    decs = [ast.unparse(d) for d in st.decorator_list]
                    if any(d.endswith(".setter") for d in decs):
                        self.methods.setdefault(st.name + ".setter", FuncInfo(module, st, self))
                        continue
                self.methods[st.name] = FuncInfo(module, st, self)
            elif isinstance(st, ast.Assign):
                for t in st.targets:
                    if isinstance(t, ast.Name):
                        self.class_attrs[t.id] = st.value
            elif isinstance(st, ast.AnnAssign) and isinstance(st.target, ast.Name) and st.value is not None:
                self.class_attrs[st.target.id] = st.value
        self._mro = None

    @property
    def fq(self):
        return self.module.name + ":" + self.name

    def __repr__(self):
        return f"<Class {self.fq}>"


class ModuleInfo:
    def __init__(self, name: str, path: str, source: str):
        self.name = name
        self.path = path
        self.source = source
        with warnings.catch_warnings():
            warnings.simplefilter("ignore")
            self.tree = ast.parse(source, filename=path)
        # undo behaviour-preserving renamings / mirrored comparisons / flipped branches (see normalise.py)
        self.normalised = 0
        if not os.environ.get("PDV_NO_NORMALISE"):
            from . import normalise
            self.normalised = normalise.normalise_module(self.tree, name)
        self.lines = source.splitlines()
        self.sha256 = hashlib.sha256(source.encode()).hexdigest()
        self.functions: Dict[str, FuncInfo] = {}
        self.classes: Dict[str, ClassInfo] = {}
        self.imports: Dict[str, str] = {}  # local alias -> fq ("mod" or "mod:name")
        self.constants: Dict[str, ast.AST] = {}
        self.assigns: Dict[str, ast.AST] = {}
        for st in self.tree.body:
            self._top(st)
        # imports anywhere (also inside functions) are recorded as aliases too
        for n in ast.walk(self.tree):
            if isinstance(n, ast.Import):
                for a in n.names:
                    self.imports.setdefault(a.asname or a.name.split(".")[0], a.name if a.asname else a.name.split(".")[0])
            elif isinstance(n, ast.ImportFrom):
                mod = n.module or ""
                if n.level:
                    base = name.split(".")
                    is_pkg = path.endswith("__init__.py")
                    up = n.level - (1 if is_pkg else 0)
                    base = base[: len(base) - up] if up else base
                    if not is_pkg:
                        base = name.split(".")[: -n.level]
                    mod = ".".join(base + ([mod] if mod else []))
                for a in n.names:
                    self.imports.setdefault(a.asname or a.name, mod + ":" + a.name)

    def _top(self, st):
        if isinstance(st, (ast.FunctionDef, ast.AsyncFunctionDef)):
            self.functions[st.name] = FuncInfo(self, st)
        elif isinstance(st, ast.ClassDef):
            self.classes[st.name] = ClassInfo(self, st)
        elif isinstance(st, ast.Assign):
            for t in st.targets:
                if isinstance(t, ast.Name):
                    self.assigns[t.id] = st.value
                    if isinstance(st.value, ast.Constant):
                        self.constants[t.id] = st.value
        elif isinstance(st, ast.AnnAssign) and isinstance(st.target, ast.Name) and st.value is not None:
            self.assigns[st.target.id] = st.value
        elif isinstance(st, (ast.If, ast.Try)):
            for sub in ast.iter_child_nodes(st):
                if isinstance(sub, ast.stmt):
                    self._top(sub)

    @property
    def relpath(self):
        return os.path.relpath(self.path, REPO)


_PARSE_CACHE: Dict[Tuple[str, str], "ModuleInfo"] = {}


class Repo:
    def __init__(self, root: str = None, overlay: Dict[str, str] = None):
        """overlay: relative path -> replacement source text (self-test
        variants are analysed in memory, nothing is written to disk)."""
        self.root = root or REPO
        self.overlay = overlay or {}
        self.modules: Dict[str, ModuleInfo] = {}
        self.parse_errors: List[Tuple[str, str]] = []
        pkgdir = os.path.join(self.root, PKG)
        if not os.path.isdir(pkgdir):
            raise AnchorMissing(f"package directory {pkgdir} not found")
        for dirpath, dirnames, filenames in os.walk(pkgdir):
            dirnames[:] = sorted(d for d in dirnames if d != "__pycache__")
            for fn in sorted(filenames):
                if not fn.endswith(".py"):
                    continue
                path = os.path.join(dirpath, fn)
                rel = os.path.relpath(path, self.root)[:-3].replace(os.sep, ".")
                if rel.endswith(".__init__"):
                    rel = rel[: -len(".__init__")]
                try:
                    relp = os.path.relpath(path, self.root)
                    if relp in self.overlay:
                        src = self.overlay[relp]
                    else:
                        with open(path, encoding="utf-8") as f:
                            src = f.read()
                    key = (path, hashlib.sha256(src.encode()).hexdigest())
                    mi = _PARSE_CACHE.get(key)
                    if mi is None:
                        mi = ModuleInfo(rel, path, src)
                        _PARSE_CACHE[key] = mi
                    else:
                        for c in mi.classes.values():
                            c._mro = None
                    self.modules[rel] = mi
                except SyntaxError as e:
                    self.parse_errors.append((path, str(e)))
        self._subclasses = None

    # ------------------------------------------------------------------ lookup
    def module(self, name: str) -> ModuleInfo:
        if name not in self.modules:
            raise AnchorMissing(f"module {name} not found in {self.root}")
        return self.modules[name]

    def cls(self, mod: str, name: str) -> ClassInfo:
        m = self.module(mod)
        if name not in m.classes:
            raise AnchorMissing(f"class {mod}:{name} not found")
        return m.classes[name]

    def func(self, mod: str, qual: str) -> FuncInfo:
        """qual is 'f' or 'Class.m' (own methods only)."""
        m = self.module(mod)
        if "." in qual:
            c, f = qual.split(".", 1)
            ci = self.cls(mod, c)
            if f not in ci.methods:
                raise AnchorMissing(f"method {mod}:{qual} not found")
            return ci.methods[f]
        if qual not in m.functions:
            raise AnchorMissing(f"function {mod}:{qual} not found")
        return m.functions[qual]

    def has_func(self, mod: str, qual: str) -> bool:
        try:
            self.func(mod, qual)
            return True
        except AnchorMissing:
            return False

    def resolve_name(self, module: ModuleInfo, name: str):
        """Resolve a bare name used in `module` to a ClassInfo / FuncInfo /
        ModuleInfo / None (external or unknown)."""
        if name in module.classes:
            return module.classes[name]
        if name in module.functions:
            return module.functions[name]
        tgt = module.imports.get(name)
        seen = set()
        while tgt and tgt not in seen:
            seen.add(tgt)
            if ":" in tgt:
                mod, n = tgt.split(":", 1)
                if mod in self.modules:
                    m = self.modules[mod]
                    if n in m.classes:
                        return m.classes[n]
                    if n in m.functions:
                        return m.functions[n]
                    if mod + "." + n in self.modules:
                        return self.modules[mod + "." + n]
                    tgt = m.imports.get(n)
                    continue
                return None
            else:
                return self.modules.get(tgt)
        return None

    def resolve_expr(self, module: ModuleInfo, expr: ast.AST):
        """Resolve Name / dotted Attribute to a repo entity, if possible."""
        if isinstance(expr, ast.Name):
            return self.resolve_name(module, expr.id)
        if isinstance(expr, ast.Attribute):
            base = self.resolve_expr(module, expr.value)
            if isinstance(base, ModuleInfo):
                if expr.attr in base.classes:
                    return base.classes[expr.attr]
                if expr.attr in base.functions:
                    return base.functions[expr.attr]
                sub = base.name + "." + expr.attr
                if sub in self.modules:
                    return self.modules[sub]
                return self.resolve_name(base, expr.attr)
            if isinstance(base, ClassInfo):
                return self.lookup_method(base, expr.attr)
        return None

    # --------------------------------------------------------------------- MRO
    def bases(self, ci: ClassInfo) -> List[ClassInfo]:
        out = []
        for b in ci.node.bases:
            r = self.resolve_expr(ci.module, b)
            if isinstance(r, ClassInfo):
                out.append(r)
        return out

    def mro(self, ci: ClassInfo) -> List[ClassInfo]:
        if ci._mro is not None:
            return ci._mro
        seqs = [self.mro(b)[:] for b in self.bases(ci)] + [self.bases(ci)[:]]
        res = [ci]
        while True:
            seqs = [s for s in seqs if s]
            if not seqs:
                break
            for s in seqs:
                cand = s[0]
                if not any(cand in t[1:] for t in seqs):
                    break
            else:
                # inconsistent; fall back to simple DFS order
                cand = seqs[0][0]
            res.append(cand)
            for s in seqs:
                if s and s[0] is cand:
                    del s[0]
        ci._mro = res
        return res

    def lookup_method(self, ci: ClassInfo, name: str) -> Optional[FuncInfo]:
        for c in self.mro(ci):
            if name in c.methods:
                return c.methods[name]
        return None

    def lookup_method_after(self, ci: ClassInfo, owner: ClassInfo, name: str) -> Optional[FuncInfo]:
        """super() lookup: first definition of `name` after `owner` in mro(ci)."""
        m = self.mro(ci)
        if owner in m:
            for c in m[m.index(owner) + 1:]:
                if name in c.methods:
                    return c.methods[name]
        return None

    def is_subclass(self, ci: ClassInfo, mod: str, name: str) -> bool:
        return any(c.module.name == mod and c.name == name for c in self.mro(ci))

    def external_bases(self, ci: ClassInfo) -> List[str]:
        out = []
        for c in self.mro(ci):
            for b in c.node.bases:
                if not isinstance(self.resolve_expr(c.module, b), ClassInfo):
                    out.append(ast.unparse(b))
        return out

    def all_classes(self) -> Iterable[ClassInfo]:
        for m in self.modules.values():
            for c in m.classes.values():
                yield c

    def subclasses_of(self, mod: str, name: str) -> List[ClassInfo]:
        return [c for c in self.all_classes() if self.is_subclass(c, mod, name) and not (c.module.name == mod and c.name == name)]

    def all_functions(self, module: ModuleInfo = None) -> Iterable[FuncInfo]:
        mods = [module] if module else list(self.modules.values())
        for m in mods:
            for f in m.functions.values():
                yield f
            for c in m.classes.values():
                for f in c.methods.values():
                    yield f

    # ---------------------------------------------------------------- handlers
    def handler_table(self, ci: ClassInfo) -> Dict[str, FuncInfo]:
        """msg type -> handler, from @register decorators along the MRO and
        `self._msg_handlers[...] = self.m` / `{...}` assignments in methods."""
        table: Dict[str, FuncInfo] = {}
        for c in reversed(self.mro(ci)):
            for f in c.methods.values():
                for t in f.register_types():
                    table[t] = f
            for f in c.methods.values():
                for n in ast.walk(f.node):
                    if isinstance(n, ast.Assign):
                        for tg in n.targets:
                            if (isinstance(tg, ast.Subscript) and isinstance(tg.value, ast.Attribute)
                                    and tg.value.attr in ("_msg_handlers", "_handlers")
                                    and isinstance(tg.value.value, ast.Name) and tg.value.value.id == "self"
                                    and isinstance(tg.slice, ast.Constant)
                                    and isinstance(n.value, ast.Attribute) and isinstance(n.value.value, ast.Name)
                                    and n.value.value.id == "self"):
                                h = self.lookup_method(ci, n.value.attr)
                                if h:
                                    table[tg.slice.value] = h
                            if (isinstance(tg, ast.Attribute) and tg.attr in ("_msg_handlers", "_handlers")
                                    and isinstance(n.value, ast.Dict)):
                                for k, v in zip(n.value.keys, n.value.values):
                                    if isinstance(k, ast.Constant) and isinstance(v, ast.Attribute):
                                        h = self.lookup_method(ci, v.attr)
                                        if h:
                                            table[k.value] = h
        return table

    # ----------------------------------------------------------- message types
    def message_types(self) -> Dict[Tuple[str, str], Tuple[str, List[str], ast.AST]]:
        """(module, class var name) -> (msg type string, fields, node) for every
        `X = message_type('t', [fields])` at module level."""
        out = {}
        for m in self.modules.values():
            for name, val in m.assigns.items():
                if (isinstance(val, ast.Call) and isinstance(val.func, ast.Name) and val.func.id == "message_type"
                        and len(val.args) >= 2 and isinstance(val.args[0], ast.Constant)
                        and isinstance(val.args[1], (ast.List, ast.Tuple))):
                    fields = [e.value for e in val.args[1].elts if isinstance(e, ast.Constant)]
                    out[(m.name, name)] = (val.args[0].value, fields, val)
        return out

    def digest(self, modnames: Iterable[str]) -> Dict[str, str]:
        return {n: self.modules[n].sha256 for n in sorted(set(modnames)) if n in self.modules}


# ------------------------------------------------------------------- helpers
def walk_no_nested(node: ast.AST):
    """ast.walk that does not enter nested function/class definitions (the
    root node itself is entered)."""
    stack = [node]
    first = True
    while stack:
        n = stack.pop()
        if not first and isinstance(n, (ast.FunctionDef, ast.AsyncFunctionDef, ast.ClassDef, ast.Lambda)):
            continue
        first = False
        yield n
        stack.extend(reversed(list(ast.iter_child_nodes(n))))


def calls_in(node: ast.AST, nested=False):
    it = ast.walk(node) if nested else walk_no_nested(node)
    for n in it:
        if isinstance(n, ast.Call):
            yield n


def call_name(call: ast.Call) -> str:
    """'f' for f(..), 'm' for x.m(..)."""
    f = call.func
    if isinstance(f, ast.Name):
        return f.id
    if isinstance(f, ast.Attribute):
        return f.attr
    return ""


def is_self_attr(node: ast.AST, attr: str = None) -> bool:
    return (isinstance(node, ast.Attribute) and isinstance(node.value, ast.Name) and node.value.id == "self"
            and (attr is None or node.attr == attr))


def is_self_call(call: ast.Call, name: str = None) -> bool:
    return isinstance(call, ast.Call) and is_self_attr(call.func, name)


def norm(node: ast.AST) -> str:
    """Normalised text of a node (formatting independent)."""
    try:
        return ast.unparse(node)
    except Exception:  # pragma: no cover
        return ast.dump(node)


def stmt_key(node: ast.AST, maxlen: int = 160) -> str:
    s = norm(node).split("\n")[0]
    return s[:maxlen]
