"""Rules shared by C03 / C04 / C07 on the MGM family (mgm.py, mgm2.py)."""
import ast

from .model import walk_no_nested, norm, call_name, is_self_attr, FuncInfo
from .facts import FuncFacts, facts_at, count_paths, calls_hit
from . import moderules as M

MGM = "pydcop.algorithms.mgm"
MGM2 = "pydcop.algorithms.mgm2"


def facts(ff, node):
    return {(norm(t), p) for t, p in facts_at(ff, node)}


def local_defs(f: FuncInfo):
    """name -> list of value nodes assigned in f (plain Name targets and self.X)."""
    out = {}
    for n in walk_no_nested(f.node):
        if isinstance(n, ast.Assign) and len(n.targets) == 1:
            out.setdefault(norm(n.targets[0]), []).append(n)
    return out


# ---------------------------------------------------------------------------
# gain arbitration polarity
# ---------------------------------------------------------------------------
def check_gain_arbitration_inline(ctx, f: FuncInfo, rule, own_gain: str, gains_src_ok):
    """MGM style:  under min: best = max(gains); is_best = own > best
                    under max: best = min(gains); is_best = own < best
    returns the name of the boolean and of the best-neighbour variable."""
    ff = FuncFacts(f.node)
    best_defs, flag_defs = {}, {}
    for n in walk_no_nested(f.node):
        if isinstance(n, ast.Assign) and len(n.targets) == 1 and isinstance(n.targets[0], ast.Name):
            m = M.mode_at(ff, n)
            v = n.value
            if isinstance(v, ast.Call) and isinstance(v.func, ast.Name) and v.func.id in ("max", "min") and m:
                best_defs.setdefault(n.targets[0].id, {})[m] = n
            if isinstance(v, ast.Compare) and len(v.ops) == 1 and type(v.ops[0]) in M.ORD and m:
                flag_defs.setdefault(n.targets[0].id, {})[m] = n
            if isinstance(v, ast.IfExp) and M.mode_of_fact(v.test, True):
                m0 = M.mode_of_fact(v.test, True)
                other = "max" if m0 == "min" else "min"
                for mm, e in ((m0, v.body), (other, v.orelse)):
                    fake = ast.Assign(targets=n.targets, value=e)
                    ast.copy_location(fake, n)
                    if isinstance(e, ast.Call) and isinstance(e.func, ast.Name) and e.func.id in ("max", "min"):
                        best_defs.setdefault(n.targets[0].id, {})[mm] = fake
                    if isinstance(e, ast.Compare) and len(e.ops) == 1 and type(e.ops[0]) in M.ORD:
                        flag_defs.setdefault(n.targets[0].id, {})[mm] = fake
    best = next((k for k, d in best_defs.items() if set(d) == {"min", "max"}), None)
    flag = next((k for k, d in flag_defs.items() if set(d) == {"min", "max"}), None)
    if best is None or flag is None:
        ctx.bad(rule, f"{f.qualname}: objective-aware arbitration", f, f.node,
                "the best neighbour gain and the 'strictly better' test must be defined for both objectives "
                "(gains are signed: an improvement is > 0 when minimising and < 0 when maximising)")
        return None, None
    for m, want_fn, want_op in (("min", "max", ">"), ("max", "min", "<")):
        b = best_defs[best][m]
        ctx.check(b.value.func.id == want_fn, rule, f"{f.qualname}: best neighbour gain under {m}", f, b,
                  f"under '{m}' the most improving neighbour has the {want_fn}imum gain, found {b.value.func.id}()")
        ctx.check(gains_src_ok(b.value), rule, f"{f.qualname}: best over all neighbours' gains ({m})", f, b,
                  "the best neighbour gain must range over the gains received from *all* neighbours")
        c = flag_defs[flag][m].value
        l, r, op = norm(c.left), norm(c.comparators[0]), M.ORD[type(c.ops[0])]
        if r == own_gain:
            l, r, op = r, l, M.SWAP[op]
        ctx.check(l == own_gain and r == best and op == want_op, rule, f"{f.qualname}: strictly better test under {m}", f, flag_defs[flag][m],
                  f"under '{m}' the mover needs `{own_gain} {want_op} {best}` (strict), found `{norm(c)}`")
    return flag, best


def check_mode_helpers(ctx, repo, rule):
    """MGM2 helpers _best_gain / _is_better_gain."""
    bg = repo.func(MGM2, "Mgm2Computation._best_gain")
    ib = repo.func(MGM2, "Mgm2Computation._is_better_gain")
    ctx.touch(bg)
    ctx.touch(ib)
    rets = [r for r in walk_no_nested(bg.node) if isinstance(r, ast.Return)]
    ok = False
    if len(rets) == 1 and isinstance(rets[0].value, ast.IfExp):
        v = rets[0].value
        m = M.mode_of_fact(v.test, True)
        if m and isinstance(v.body, ast.Call) and isinstance(v.orelse, ast.Call):
            fb, fo = norm(v.body.func), norm(v.orelse.func)
            ok = (m == "min" and (fb, fo) == ("max", "min")) or (m == "max" and (fb, fo) == ("min", "max"))
            ok = ok and norm(v.body.args[0]) == bg.params[1] and norm(v.orelse.args[0]) == bg.params[1]
    else:
        ff = FuncFacts(bg.node)
        seen = {}
        for r in rets:
            m = M.mode_at(ff, r)
            if m and isinstance(r.value, ast.Call):
                seen[m] = norm(r.value.func)
        ok = seen == {"min": "max", "max": "min"}
    ctx.check(ok, rule, "Mgm2._best_gain: max of gains when minimising, min when maximising", bg, bg.node,
              "gains are signed by the objective: the most improving gain is the maximum under 'min' and the minimum under 'max'")
    rets = [r for r in walk_no_nested(ib.node) if isinstance(r, ast.Return)]
    ok = False
    a, b = ib.params[1], ib.params[2]
    if len(rets) == 1 and isinstance(rets[0].value, ast.IfExp):
        v = rets[0].value
        m = M.mode_of_fact(v.test, True)
        if m:
            tb, to = norm(v.body), norm(v.orelse)
            gt, lt = (f"{a} > {b}", f"{b} < {a}"), (f"{a} < {b}", f"{b} > {a}")
            ok = (m == "min" and tb in gt and to in lt) or (m == "max" and tb in lt and to in gt)
    else:
        ff = FuncFacts(ib.node)
        seen = {}
        for r in rets:
            m = M.mode_at(ff, r)
            if m:
                seen[m] = norm(r.value)
        ok = seen.get("min") in (f"{a} > {b}", f"{b} < {a}") and seen.get("max") in (f"{a} < {b}", f"{b} > {a}")
    ctx.check(ok, rule, "Mgm2._is_better_gain: strict '>' when minimising, strict '<' when maximising", ib, ib.node,
              "a gain is strictly better when it is greater under 'min' and smaller under 'max'")


def check_improvement_test(ctx, f: FuncInfo, rule, gain: str, new_value_field: str, current="self.current_value"):
    """can-improve test:  (min and gain > 0) or (max and gain < 0)  selects a
    best value, otherwise the current value is kept."""
    ff = FuncFacts(f.node)
    sets = [n for n in walk_no_nested(f.node) if isinstance(n, ast.Assign) and norm(n.targets[0]) == new_value_field]
    pick = [n for n in sets if isinstance(n.value, ast.Call) and call_name(n.value) == "choice"]
    keep = [n for n in sets if norm(n.value) == current]
    if len(pick) != 1 or len(keep) != 1:
        ctx.bad(rule, f"{f.qualname}: candidate value chosen or current value kept", f, f.node,
                f"{new_value_field} must become a best value when an improvement exists and stay the current value otherwise")
        return
    ifs = [n for n in ast.walk(f.node) if isinstance(n, ast.If) and pick[0] in n.body]
    if len(ifs) != 1:
        ctx.bad(rule, f"{f.qualname}: improvement test", f, pick[0], "the choice of a new value must be guarded by the improvement test")
        return
    t = ifs[0].test
    ok = False
    if isinstance(t, ast.BoolOp) and isinstance(t.op, ast.Or) and len(t.values) == 2:
        seen = {}
        for v in t.values:
            parts = v.values if isinstance(v, ast.BoolOp) else ([v.left, v.right] if isinstance(v, ast.BinOp) and isinstance(v.op, ast.BitAnd) else [])
            mode = None
            cmp_ = None
            for p_ in parts:
                m = M.mode_of_fact(p_, True)
                if m:
                    mode = m
                elif isinstance(p_, ast.Compare) and len(p_.ops) == 1:
                    cmp_ = p_
            if mode and cmp_ is not None:
                l, r, op = norm(cmp_.left), norm(cmp_.comparators[0]), M.ORD.get(type(cmp_.ops[0]))
                if l == "0" and op:
                    l, r, op = r, l, M.SWAP[op]
                seen[mode] = (l, op, r)
        ok = seen.get("min") == (gain, ">", "0") and seen.get("max") == (gain, "<", "0")
    ctx.check(ok, rule, f"{f.qualname}: improvement is gain > 0 when minimising, gain < 0 when maximising", f, ifs[0],
              f"`{gain} = current - best`: an improvement exists iff it is > 0 under 'min' and < 0 under 'max'")
    ctx.check(keep[0] in ifs[0].orelse, rule, f"{f.qualname}: no improvement keeps the current value", f, keep[0],
              "when no improvement exists the candidate must be the current value (so that a 'move' is a no-op)")


def check_gain_definition(ctx, f: FuncInfo, rule, gain: str, best_cost_callee: str):
    """gain = self.current_cost - <best cost of _compute_best_value>"""
    defs = [n for n in walk_no_nested(f.node) if isinstance(n, ast.Assign) and norm(n.targets[0]) == gain]
    unp = [n for n in walk_no_nested(f.node) if isinstance(n, ast.Assign) and isinstance(n.targets[0], ast.Tuple) and isinstance(n.value, ast.Call)
           and is_self_attr(n.value.func, best_cost_callee)]
    ok = len(defs) == 1 and len(unp) == 1 and len(unp[0].targets[0].elts) == 2
    if ok:
        bc = norm(unp[0].targets[0].elts[1])
        ok = norm(defs[0].value) == f"self.current_cost - {bc}" and unp[0].lineno < defs[0].lineno
    ctx.check(ok, rule, f"{f.qualname}: {gain} = current cost - best cost", f, defs[0] if defs else f.node,
              f"the gain must be the current local cost minus the best achievable local cost (slot 2 of {best_cost_callee}())")
    return unp[0] if unp else None


def check_move_cost(ctx, f: FuncInfo, rule, value_field: str, gain: str):
    """every value_selection(<new value>, self.current_cost - <gain>)"""
    n = 0
    for c in walk_no_nested(f.node):
        if isinstance(c, ast.Call) and is_self_attr(c.func, "value_selection") and c.args and norm(c.args[0]) == value_field:
            n += 1
            ctx.check(len(c.args) == 2 and norm(c.args[1]) == f"self.current_cost - {gain}", rule, f"{f.qualname}: move records cost = current - gain", f, c,
                      f"after the move the local cost is the current cost minus the gain (= the best cost)")
    return n


def check_go_decision(ctx, hg2, rule):
    """MGM2, committed branch of _handle_gain_messages: the local go is True exactly when there is no neighbour other than the
    partner or the pair gain is strictly better than the best of theirs; the go message sent to the partner carries the same value."""
    ff2 = FuncFacts(hg2.node)
    cm = [n for n in walk_no_nested(hg2.node) if isinstance(n, ast.Assign) and norm(n.targets[0]) == "self._can_move"]
    posts = [c for c in walk_no_nested(hg2.node) if isinstance(c, ast.Call) and is_self_attr(c.func, "post_msg") and isinstance(c.args[1], ast.Call) and call_name(c.args[1]) == "Mgm2GoMessage"]
    okp = len(cm) == 2 and len(posts) == 2
    if okp:
        for a in cm:
            fs = facts(ff2, a)
            val = norm(a.value)
            lic = any(t.startswith("neigh_gains == [] or self._is_better_gain(self._potential_gain, self._best_gain(neigh_gains))") and p for t, p in fs)
            nol = ("neigh_gains == []", False) in fs and ("self._is_better_gain(self._potential_gain, self._best_gain(neigh_gains))", False) in fs
            okp = okp and ("self._committed", True) in fs and ((val == "True" and lic) or (val == "False" and nol))
            blk = [p_ for p_ in posts if facts(ff2, p_) == fs]
            okp = okp and len(blk) == 1 and norm(blk[0].args[1].args[0]) == val and norm(blk[0].args[0]) == "self._partner.name"
    ctx.check(okp, rule, "MGM2: local go iff the pair gain is strictly best among the other neighbours (or there is none); the same decision is sent to the partner", hg2,
              cm[0] if cm else hg2.node, "_can_move and the go message must carry the same decision, taken against all neighbours but the partner; "
              "a pair that announced its gain and then does not go ends the cycle without a move while it blocked its neighbours")


def check_go_order(ctx, hg2, rule):
    """MGM2: `_enter_state('go?')` replays the go messages that arrived early, and their handler reads `_can_move`: on every path the local decision
    is stored before the state is entered (and the go message is posted before it too, so that the partner's answer cannot overtake it)"""
    from .facts import stmt_paths
    n = 0
    for p in stmt_paths([s for s in hg2.node.body if not (isinstance(s, ast.Expr) and isinstance(s.value, ast.Constant))]):
        i_enter = p.index(lambda s: any(isinstance(c, ast.Call) and is_self_attr(c.func, "_enter_state") and c.args and norm(c.args[0]) == "'go?'" for c in ast.walk(s)))
        if i_enter < 0:
            continue
        n += 1
        stores = [i for i, s in enumerate(p.stmts) if isinstance(s, ast.Assign) and any(norm(t) == "self._can_move" for t in s.targets)]
        ctx.check(bool(stores) and max(stores) < i_enter, rule, "MGM2: the local go decision is stored before the 'go?' state is entered", hg2, p.stmts[i_enter],
                  "_enter_state('go?') handles the postponed go messages at once, and their handler reads _can_move: storing the decision afterwards makes it use the previous cycle's value")
    if n == 0:
        ctx.bad(rule, "MGM2: the committed branch enters the 'go?' state", hg2, hg2.node, "no path of _handle_gain_messages enters the 'go?' state")


def check_enter_state_last(ctx, methods, rule):
    """MGM2: `_enter_state(S)` sets the state and immediately handles, re-entrantly, the messages postponed for S; those handlers read and write the
    computation's fields and may enter further states.  Every effect of the caller must therefore come before it: on every path `_enter_state` is the
    last effect (only `return` may follow)."""
    n = 0
    for f in methods:
        if f.name == "_enter_state":
            continue
        body = [s for s in f.node.body if not (isinstance(s, ast.Expr) and isinstance(s.value, ast.Constant))]
        for p in stmt_paths_(body):
            idx = [i for i, s in enumerate(p.stmts) if not isinstance(s, (ast.For, ast.While, ast.Try, ast.With)) and any(isinstance(c, ast.Call) and is_self_attr(c.func, "_enter_state") for c in ast.walk(s))]
            if not idx:
                continue
            n += 1
            late = [s for s in p.stmts[idx[0] + 1:] if not (isinstance(s, ast.Return) and s.value is None) and not (isinstance(s, ast.Expr) and isinstance(s.value, ast.Call) and "logger" in norm(s.value.func))]
            ctx.check(not late, rule, f"MGM2 {f.name}: entering a state is the last effect of the path", f, late[0] if late else p.stmts[idx[0]],
                      "the postponed messages of the new state are handled inside _enter_state: what follows it runs after those handlers (stale decision fields, clobbered state)")
    return n


def stmt_paths_(body):
    from .facts import stmt_paths
    return stmt_paths(body)


def check_mgm_costmodel(ctx, cb, hv, rule):
    """MGM: the candidate side (_compute_best_value) and the current side (_handle_value_message) of the gain use one cost model"""
    lam = [n for n in ast.walk(cb.node) if isinstance(n, ast.Lambda)]
    okl = len(lam) == 1
    if okl:
        x = lam[0].args.args[0].arg
        t = norm(lam[0].body)
        okl = f"f({x}) for f in reduced_cs" in t and f"self.variable.cost_for_val({x})" in t and isinstance(lam[0].body, ast.BinOp) and isinstance(lam[0].body.op, ast.Add)
    ctx.check(okl, rule, "MGM: candidate cost = constraints at the candidate + own variable cost at the candidate", cb, lam[0] if lam else cb.node,
              "the function optimised over the domain must include the variable's own cost for the candidate value")
    own_cur = [c for c in ast.walk(cb.node) if isinstance(c, ast.Call) and norm(c.func).endswith("cost_for_val") and norm(c.args[0]) == "self.current_value"]
    ctx.check(not own_cur, rule, "MGM: no own cost at the current value on the candidate side", cb, own_cur[0] if own_cur else cb.node,
              "the best cost must not contain the variable's cost for its *current* value")
    for f, what in ((cb, "candidate"), (hv, "current")):
        t = norm(f.node)
        ok = "for c in self.utilities" in t and "filter_assignment_dict(self._neighbors_values, c.dimensions)" in t and "c.slice(asgt)" in t \
            and "cost_for_val(self._neighbors_values[" in t
        ctx.check(ok, rule, f"MGM: {what} side = all constraints sliced on neighbours' values + neighbours' variable costs", f, f.node,
                  "both sides of the gain must be built from the same constraint set and the same neighbour terms")
    own = [c for c in ast.walk(hv.node) if isinstance(c, ast.Call) and norm(c.func).endswith("cost_for_val") and norm(c.args[0]) == "self.current_value"]
    ctx.check(len(own) == 1, rule, "MGM: current side includes the own cost at the current value", hv, own[0] if own else hv.node, "")



def offer_roles(fb):
    """{value expression: 'own' | 'partner'} from the stores into the trial assignment of _find_best_offer, written either as
    `partial_asgt.update({partner: a, self.variable.name: b})` or as item assignments; second result: the store sites"""
    roles, sites = {}, []
    for c in ast.walk(fb.node):
        if isinstance(c, ast.Call) and norm(c.func) == "partial_asgt.update" and c.args and isinstance(c.args[0], ast.Dict):
            sites.append(c)
            for k, v in zip(c.args[0].keys, c.args[0].values):
                roles[norm(v)] = "own" if norm(k) == "self.variable.name" else "partner"
    items = [a for a in ast.walk(fb.node) if isinstance(a, ast.Assign) and isinstance(a.targets[0], ast.Subscript) and norm(a.targets[0].value) == "partial_asgt"]
    if items and not sites:
        for a in items:
            roles[norm(a.value)] = "own" if norm(a.targets[0].slice) == "self.variable.name" else "partner"
        if len(items) == 2:
            sites = [items[0]]
    return roles, sites


def check_offer_slots(ctx, repo, rule):
    """MGM2: _find_best_offer lists (partner value, own value, partner name); the receiver of the offers unpacks them in those roles"""
    cls = repo.cls(MGM2, "Mgm2Computation")
    fb = cls.methods["_find_best_offer"]
    ho = cls.methods["_handle_offer_messages"]
    ctx.touch(fb)
    ctx.touch(ho)
    roles, upd = offer_roles(fb)
    tuples = [t for t in ast.walk(fb.node) if isinstance(t, ast.Tuple) and len(t.elts) == 3 and isinstance(t.ctx, ast.Load) and all(isinstance(e, ast.Name) for e in t.elts)
              and any(norm(e) in roles for e in t.elts)]
    shape = {tuple(roles.get(norm(e), "name") for e in t.elts) for t in tuples}
    ok = len(upd) == 1 and len(tuples) >= 2 and shape == {("partner", "own", "name")}
    ctx.check(ok, rule, "MGM2: best offers are listed as (partner value, own value, partner name)", fb, tuples[0] if tuples else fb.node, f"found {sorted(shape)}")
    un = [a for a in ast.walk(ho.node) if isinstance(a, ast.Assign) and isinstance(a.targets[0], ast.Tuple) and len(a.targets[0].elts) == 3 and "best_offers" in norm(a.value)]
    ok = len(un) == 1
    if ok:
        a, b, c = [norm(e) for e in un[0].targets[0].elts]
        t = norm(ho.node)
        ok = b == "self._potential_value" and f"self._neighbor_var({c})" in t and any(isinstance(m, ast.Call) and call_name(m) == "Mgm2ResponseMessage" and len(m.args) >= 2 and norm(m.args[1]) == a for m in ast.walk(ho.node))
    ctx.check(ok, rule, "MGM2: the accepted offer gives the partner its value (sent back) and this variable its own (kept as potential value)", ho, un[0] if un else ho.node,
              "unpacked in the offerer's order the two computations exchange their values: the pair announces the coordinated gain, blocks its neighbours, and moves onto "
              "another assignment (possibly the current one) than the one the gain was computed for")
