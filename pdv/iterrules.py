"""One-shot iterables: a collection parameter that is traversed more than once (inside a loop, or by several consumers) must first be materialised
(`list(..)`, `tuple(..)`, `sorted(..)`, a list display / comprehension), whatever source it is bound from - `Iterable[...]` arguments may be generators,
`filter` / `map` objects or dict views over a dict that the function itself mutates."""
import ast
from typing import Dict, List, Optional

from .model import norm
from .facts import exec_under

_MATERIALISE = ("list", "tuple", "sorted", "set", "frozenset", "dict")


def materialised_before_loop(fnode, names: List[str], atom_sets: Dict[str, callable]) -> Dict[str, Dict[str, Optional[str]]]:
    """for every case (name -> atom function) and every collection name: the text it is materialised from, in the straight-line trace of the case,
    before the first loop of the trace (None when it reaches the loop without having been materialised)"""
    body = [s for s in fnode.body if not (isinstance(s, ast.Expr) and isinstance(s.value, ast.Constant))]
    out = {}
    for case, atom in atom_sets.items():
        eff, k = exec_under(body, atom, opaque=True)
        res = {n: None for n in names}
        for st in eff:
            if isinstance(st, (ast.For, ast.While)):
                break
            if isinstance(st, ast.Assign) and len(st.targets) == 1 and isinstance(st.targets[0], ast.Name) and st.targets[0].id in names:
                v = st.value
                if isinstance(v, ast.Call) and isinstance(v.func, ast.Name) and v.func.id in _MATERIALISE and len(v.args) == 1:
                    res[st.targets[0].id] = norm(v.args[0])
                elif isinstance(v, (ast.List, ast.ListComp)):
                    res[st.targets[0].id] = norm(v)
                else:
                    res[st.targets[0].id] = None
        out[case] = res
    return out
