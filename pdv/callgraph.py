"""E1 - resolved (typed) call graph over the repository, ast only.

Receiver types come from: constructor calls (`x = Cls(..)`, `self.f = Cls(..)`),
annotated parameters stored into fields (`self.f = p` with `p: Cls`), return
annotations of repo methods, properties returning typed fields, and container
type comments (`# type: Dict[str, Cls]`) for element access.  Calls whose
receiver cannot be typed are counted as unresolved, never guessed.
"""
import ast
import re
from typing import Dict, List, Optional, Set, Tuple

from .model import Repo, ClassInfo, FuncInfo, ModuleInfo, walk_no_nested, norm, call_name, is_self_attr


class CallGraph:
    def __init__(self, repo: Repo, modules: List[str]):
        self.repo = repo
        self.mods = [repo.modules[m] for m in modules if m in repo.modules]
        self.funcs: Dict[str, FuncInfo] = {}
        for m in self.mods:
            for f in repo.all_functions(m):
                self.funcs[f.fq] = f
        self.edges: Dict[str, List[Tuple[str, ast.Call]]] = {}
        self.unresolved = 0
        self.resolved = 0
        self._field_types: Dict[str, Dict[str, ClassInfo]] = {}
        self._elem_types: Dict[str, Dict[str, ClassInfo]] = {}
        self.thread_targets: List[Tuple[FuncInfo, FuncInfo, ast.Call, str]] = []   # (creator, target, call, kind)
        for f in list(self.funcs.values()):
            self._scan(f)

    # ------------------------------------------------------------------ types
    def _cls_by_name(self, module: ModuleInfo, name: str) -> Optional[ClassInfo]:
        name = name.strip("'\"")
        r = self.repo.resolve_name(module, name)
        if isinstance(r, ClassInfo):
            return r
        for m in self.repo.modules.values():
            if name in m.classes and m.name.startswith("pydcop.infrastructure"):
                return m.classes[name]
        return None

    def _ann_class(self, module: ModuleInfo, ann: ast.AST) -> Optional[ClassInfo]:
        if ann is None:
            return None
        if isinstance(ann, ast.Constant) and isinstance(ann.value, str):
            return self._cls_by_name(module, ann.value)
        if isinstance(ann, ast.Name):
            return self._cls_by_name(module, ann.id)
        if isinstance(ann, ast.Subscript) and norm(ann.value) in ("Optional",):
            return self._ann_class(module, ann.slice)
        return None

    def field_types(self, ci: ClassInfo) -> Dict[str, ClassInfo]:
        if ci.fq in self._field_types:
            return self._field_types[ci.fq]
        out: Dict[str, ClassInfo] = {}
        elems: Dict[str, ClassInfo] = {}
        self._field_types[ci.fq] = out
        self._elem_types[ci.fq] = elems
        for k in reversed(self.repo.mro(ci)):
            for m in k.methods.values():
                ptypes = {}
                a = m.node.args
                for arg in a.posonlyargs + a.args + a.kwonlyargs:
                    c = self._ann_class(m.module, arg.annotation)
                    if c:
                        ptypes[arg.arg] = c
                for n in walk_no_nested(m.node):
                    if isinstance(n, (ast.Assign, ast.AnnAssign)):
                        tgts = n.targets if isinstance(n, ast.Assign) else [n.target]
                        for t in tgts:
                            if is_self_attr(t):
                                v = n.value
                                c = None
                                if isinstance(v, ast.Call):
                                    c = self._cls_by_name(m.module, call_name(v)) if isinstance(v.func, (ast.Name, ast.Attribute)) else None
                                    if c is None:
                                        c = self.expr_type(v, m, {}, depth=1)
                                elif isinstance(v, ast.Name) and v.id in ptypes:
                                    c = ptypes[v.id]
                                elif isinstance(v, ast.Attribute):
                                    c = self.expr_type(v, m, ptypes, depth=1)
                                if isinstance(n, ast.AnnAssign):
                                    c = c or self._ann_class(m.module, n.annotation)
                                if c:
                                    out[t.attr] = c
                                # container element type from a type comment on the same line
                                line = m.module.lines[n.lineno - 1] if n.lineno - 1 < len(m.module.lines) else ""
                                mm = re.search(r"#\s*type:\s*(?:Dict\[\w+,\s*|List\[|Set\[)(\w+)\]", line)
                                if mm:
                                    ec = self._cls_by_name(m.module, mm.group(1))
                                    if ec:
                                        elems[t.attr] = ec
            # properties returning typed things
            for m in k.methods.values():
                if m.is_property() and m.node.returns is not None:
                    c = self._ann_class(m.module, m.node.returns)
                    if c:
                        out.setdefault(m.name, c)
        return out

    def elem_types(self, ci: ClassInfo) -> Dict[str, ClassInfo]:
        self.field_types(ci)
        return self._elem_types.get(ci.fq, {})

    def expr_type(self, e: ast.AST, f: FuncInfo, local: Dict[str, ClassInfo], depth=0) -> Optional[ClassInfo]:
        if depth > 5:
            return None
        if isinstance(e, ast.Name):
            if e.id == "self" and f.cls is not None:
                return f.cls
            return local.get(e.id)
        if isinstance(e, ast.Call):
            if isinstance(e.func, ast.Name):
                c = self._cls_by_name(f.module, e.func.id)
                if c:
                    return c
                r = self.repo.resolve_name(f.module, e.func.id)
                if isinstance(r, FuncInfo) and r.node.returns is not None:
                    return self._ann_class(r.module, r.node.returns)
                if e.func.id in ("list", "sorted") and e.args:
                    return None
            if isinstance(e.func, ast.Attribute):
                rt = self.expr_type(e.func.value, f, local, depth + 1)
                if rt is not None:
                    m = self.repo.lookup_method(rt, e.func.attr)
                    if m is not None and m.node.returns is not None:
                        return self._ann_class(m.module, m.node.returns)
                # element access on typed containers:  self._computations.pop(..) / .get(..) / [..]
                if e.func.attr in ("pop", "get") and is_self_attr(e.func.value) and f.cls is not None:
                    return self.elem_types(f.cls).get(e.func.value.attr)
            return None
        if isinstance(e, ast.Attribute):
            rt = self.expr_type(e.value, f, local, depth + 1)
            if rt is not None:
                ft = self.field_types(rt)
                if e.attr in ft:
                    return ft[e.attr]
                m = self.repo.lookup_method(rt, e.attr)
                if m is not None and m.is_property() and m.node.returns is not None:
                    return self._ann_class(m.module, m.node.returns)
            return None
        if isinstance(e, ast.Subscript):
            if is_self_attr(e.value) and f.cls is not None:
                return self.elem_types(f.cls).get(e.value.attr)
        return None

    def local_types(self, f: FuncInfo) -> Dict[str, ClassInfo]:
        local: Dict[str, ClassInfo] = {}
        a = f.node.args
        for arg in a.posonlyargs + a.args + a.kwonlyargs:
            c = self._ann_class(f.module, arg.annotation)
            if c:
                local[arg.arg] = c
        for _ in range(2):
            for n in walk_no_nested(f.node):
                if isinstance(n, ast.Assign) and len(n.targets) == 1 and isinstance(n.targets[0], ast.Name):
                    c = self.expr_type(n.value, f, local)
                    if c:
                        local[n.targets[0].id] = c
                elif isinstance(n, ast.For) and isinstance(n.target, ast.Name):
                    it = n.iter
                    # for c in self._computations.values() / list(self._computations.values()) / self.computations()
                    inner = it.args[0] if isinstance(it, ast.Call) and isinstance(it.func, ast.Name) and it.func.id in ("list", "sorted") and it.args else it
                    if isinstance(inner, ast.Call) and isinstance(inner.func, ast.Attribute) and inner.func.attr == "values" and is_self_attr(inner.func.value) and f.cls is not None:
                        c = self.elem_types(f.cls).get(inner.func.value.attr)
                        if c:
                            local[n.target.id] = c
                    elif isinstance(inner, ast.Call) and isinstance(inner.func, ast.Attribute):
                        rt = self.expr_type(inner.func.value, f, local)
                        if rt is not None:
                            m = self.repo.lookup_method(rt, inner.func.attr)
                            if m is not None and m.node.returns is not None:
                                r = m.node.returns
                                if isinstance(r, ast.Subscript) and norm(r.value) in ("List", "Iterable", "Set"):
                                    c = self._ann_class(m.module, r.slice)
                                    if c:
                                        local[n.target.id] = c
        return local

    # ------------------------------------------------------------------ edges
    def _targets(self, ci: ClassInfo, name: str) -> List[FuncInfo]:
        out = []
        m = self.repo.lookup_method(ci, name)
        if m is not None:
            out.append(m)
        for sub in self.repo.all_classes():
            if sub is not ci and ci in self.repo.mro(sub) and name in sub.methods:
                out.append(sub.methods[name])
        return out

    def _scan(self, f: FuncInfo):
        local = self.local_types(f)
        edges = []
        for c in walk_no_nested(f.node):
            if not isinstance(c, ast.Call):
                continue
            fn = norm(c.func)
            # thread / timer creation
            if fn in ("Thread", "threading.Thread", "threading.Timer", "Timer"):
                tgt = None
                for k in c.keywords:
                    if k.arg in ("target", "function"):
                        tgt = k.value
                if tgt is None and fn.endswith("Timer") and len(c.args) >= 2:
                    tgt = c.args[1]
                if tgt is not None:
                    for t in self._callable_targets(tgt, f, local):
                        self.thread_targets.append((f, t, c, "Timer" if fn.endswith("Timer") else "Thread"))
                continue
            tgts = self._call_targets(c, f, local)
            if tgts is None:
                self.unresolved += 1
                continue
            self.resolved += 1
            for t in tgts:
                if t.fq in self.funcs:
                    edges.append((t.fq, c))
        self.edges[f.fq] = edges

    def _callable_targets(self, e: ast.AST, f: FuncInfo, local) -> List[FuncInfo]:
        if isinstance(e, ast.Attribute):
            rt = self.expr_type(e.value, f, local)
            if rt is not None:
                return self._targets(rt, e.attr)
        if isinstance(e, ast.Name):
            r = self.repo.resolve_name(f.module, e.id)
            if isinstance(r, FuncInfo):
                return [r]
            # nested function of f
            for n in ast.walk(f.node):
                if isinstance(n, ast.FunctionDef) and n.name == e.id and n is not f.node:
                    return [FuncInfo(f.module, n, f.cls, parent=f)]
        return []

    def _call_targets(self, c: ast.Call, f: FuncInfo, local) -> Optional[List[FuncInfo]]:
        fn = c.func
        if isinstance(fn, ast.Name):
            r = self.repo.resolve_name(f.module, fn.id)
            if isinstance(r, FuncInfo):
                return [r]
            if isinstance(r, ClassInfo):
                m = self.repo.lookup_method(r, "__init__")
                return [m] if m is not None else []
            return [] if fn.id in dir(__builtins__) or True else None
        if isinstance(fn, ast.Attribute):
            v = fn.value
            if isinstance(v, ast.Call) and isinstance(v.func, ast.Name) and v.func.id == "super" and f.cls is not None:
                m = None
                for k in self.repo.mro(f.cls)[1:]:
                    if fn.attr in k.methods:
                        m = k.methods[fn.attr]
                        break
                return [m] if m else []
            rt = self.expr_type(v, f, local)
            if rt is not None:
                return self._targets(rt, fn.attr)
            r = self.repo.resolve_expr(f.module, fn)
            if isinstance(r, FuncInfo):
                return [r]
            return None
        return None

    # ---------------------------------------------------------- reachability
    def reach(self, roots: List[str], stop: Set[str] = frozenset()) -> Dict[str, Tuple[Optional[str], Optional[ast.Call]]]:
        """fq -> (predecessor fq, call node) for everything reachable from roots."""
        seen: Dict[str, Tuple[Optional[str], Optional[ast.Call]]] = {}
        work = []
        for r in roots:
            if r in self.funcs and r not in seen:
                seen[r] = (None, None)
                work.append(r)
        while work:
            cur = work.pop()
            if cur in stop:
                continue
            for tgt, call in self.edges.get(cur, []):
                if tgt not in seen:
                    seen[tgt] = (cur, call)
                    work.append(tgt)
        return seen

    def path(self, seen, fq: str) -> List[str]:
        out = []
        cur = fq
        while cur is not None:
            pred, call = seen[cur]
            out.append(cur if call is None else f"{cur} (called at line {call.lineno} of {pred})")
            cur = pred
        return list(reversed(out))
