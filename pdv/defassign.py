"""Definite-assignment analysis of function locals (possibly-undefined reads).

For every read of a local name the analysis decides whether the name is bound
on *every* syntactic path reaching the read.  Structured control flow only
(If / For / While / Try / With), which is all the repository uses.

Conventions that keep the rule exact enough to arm:
* a `for` / `while` body may run zero times: names bound only in the body are
  not bound after the loop (reads *inside* the body after the binding are fine);
* `while True` bodies run at least once;
* a read inside a nested function / lambda / comprehension of an enclosing
  local is not checked (closure timing);
* names that are parameters, globals, builtins, imported or module-level are
  never reported.
"""
import ast
import builtins
from typing import List, Set, Tuple

from .model import FuncInfo

_BUILTINS = set(dir(builtins))


def _targets(t) -> Set[str]:
    out = set()
    if isinstance(t, ast.Name):
        out.add(t.id)
    elif isinstance(t, (ast.Tuple, ast.List)):
        for e in t.elts:
            out |= _targets(e)
    elif isinstance(t, ast.Starred):
        out |= _targets(t.value)
    return out


def _assigned_names(node) -> Set[str]:
    """all names bound anywhere in the function body (own scope)"""
    out = set()
    stack = list(node.body)
    while stack:
        n = stack.pop()
        if isinstance(n, (ast.FunctionDef, ast.AsyncFunctionDef, ast.ClassDef)):
            out.add(n.name)
            continue
        if isinstance(n, ast.Lambda):
            continue
        if isinstance(n, ast.Assign):
            for t in n.targets:
                out |= _targets(t)
        elif isinstance(n, (ast.AugAssign, ast.AnnAssign)):
            out |= _targets(n.target)
        elif isinstance(n, (ast.For, ast.AsyncFor)):
            out |= _targets(n.target)
        elif isinstance(n, (ast.With, ast.AsyncWith)):
            for i in n.items:
                if i.optional_vars is not None:
                    out |= _targets(i.optional_vars)
        elif isinstance(n, ast.ExceptHandler) and n.name:
            out.add(n.name)
        elif isinstance(n, (ast.Import, ast.ImportFrom)):
            for a in n.names:
                out.add((a.asname or a.name).split(".")[0])
        elif isinstance(n, ast.NamedExpr):
            out |= _targets(n.target)
        elif isinstance(n, (ast.ListComp, ast.SetComp, ast.DictComp, ast.GeneratorExp)):
            # own scope; walrus inside leaks but the repo does not use it
            continue
        stack.extend(ast.iter_child_nodes(n))
    return out


def _reads(expr, bound: Set[str], locals_: Set[str], out: List[Tuple[str, ast.AST]]):
    """record reads of locals not yet bound, in evaluation order (approximate);
    comprehension / lambda scopes are skipped for their own targets"""
    if expr is None:
        return
    for n in _walk_expr(expr):
        if isinstance(n, ast.Name) and isinstance(n.ctx, ast.Load) and n.id in locals_ and n.id not in bound:
            out.append((n.id, n))


def _walk_expr(e):
    stack = [e]
    while stack:
        n = stack.pop()
        if isinstance(n, (ast.Lambda, ast.FunctionDef, ast.AsyncFunctionDef, ast.ClassDef)):
            continue
        if isinstance(n, (ast.ListComp, ast.SetComp, ast.DictComp, ast.GeneratorExp)):
            # the first iterable is evaluated in the enclosing scope
            stack.append(n.generators[0].iter)
            continue
        yield n
        stack.extend(ast.iter_child_nodes(n))


def possibly_undefined(f: FuncInfo) -> List[Tuple[str, ast.AST]]:
    node = f.node
    globals_ = set()
    for n in ast.walk(node):
        if isinstance(n, (ast.Global, ast.Nonlocal)):
            globals_ |= set(n.names)
    a = node.args
    params = {x.arg for x in a.posonlyargs + a.args + a.kwonlyargs}
    if a.vararg:
        params.add(a.vararg.arg)
    if a.kwarg:
        params.add(a.kwarg.arg)
    locals_ = _assigned_names(node) - params - globals_
    out: List[Tuple[str, ast.AST]] = []

    def block(stmts, bound: Set[str]) -> Tuple[Set[str], bool]:
        """returns (bound after, falls_through)"""
        bound = set(bound)
        for st in stmts:
            bound, alive = stmt(st, bound)
            if not alive:
                return bound, False
        return bound, True

    def stmt(st, bound):
        if isinstance(st, (ast.FunctionDef, ast.AsyncFunctionDef, ast.ClassDef)):
            return bound | {st.name}, True
        if isinstance(st, ast.Assign):
            _reads(st.value, bound, locals_, out)
            for t in st.targets:
                for sub in ast.walk(t):
                    if isinstance(sub, (ast.Subscript, ast.Attribute)):
                        _reads(sub.value, bound, locals_, out)
                        if isinstance(sub, ast.Subscript):
                            _reads(sub.slice, bound, locals_, out)
            nb = set(bound)
            for t in st.targets:
                nb |= _targets(t)
            return nb, True
        if isinstance(st, ast.AugAssign):
            _reads(st.value, bound, locals_, out)
            if isinstance(st.target, ast.Name):
                if st.target.id in locals_ and st.target.id not in bound:
                    out.append((st.target.id, st.target))
            else:
                _reads(st.target, bound, locals_, out)
            return bound | _targets(st.target), True
        if isinstance(st, ast.AnnAssign):
            _reads(st.value, bound, locals_, out)
            return (bound | _targets(st.target)) if st.value is not None else bound, True
        if isinstance(st, ast.Return):
            _reads(st.value, bound, locals_, out)
            return bound, False
        if isinstance(st, ast.Raise):
            _reads(st.exc, bound, locals_, out)
            _reads(st.cause, bound, locals_, out)
            return bound, False
        if isinstance(st, (ast.Break, ast.Continue)):
            return bound, False
        if isinstance(st, ast.If):
            _reads(st.test, bound, locals_, out)
            b1, a1 = block(st.body, bound)
            b2, a2 = block(st.orelse, bound)
            if a1 and a2:
                return b1 & b2, True
            if a1:
                return b1, True
            if a2:
                return b2, True
            return b1 & b2, False
        if isinstance(st, (ast.For, ast.AsyncFor)):
            _reads(st.iter, bound, locals_, out)
            inner = bound | _targets(st.target)
            block(st.body, inner)
            b2, a2 = block(st.orelse, bound)
            return (b2 if st.orelse else bound), True
        if isinstance(st, ast.While):
            _reads(st.test, bound, locals_, out)
            bb, ab = block(st.body, bound)
            infinite = isinstance(st.test, ast.Constant) and bool(st.test.value)
            if infinite:
                # leaves only through break: names bound before every break are unknown here; be
                # conservative and keep what was bound before the loop plus nothing more
                return bound, True
            b2, a2 = block(st.orelse, bound)
            return (b2 if st.orelse else bound), True
        if isinstance(st, ast.Try):
            bb, ab = block(st.body, bound)
            outs = []
            if ab:
                be, ae = block(st.orelse, bb)
                if ae:
                    outs.append(be)
            for h in st.handlers:
                hb = set(bound)
                if h.name:
                    hb.add(h.name)
                bh, ah = block(h.body, hb)
                if ah:
                    outs.append(bh - ({h.name} if h.name else set()))
            res = set.intersection(*outs) if outs else set(bound)
            alive = bool(outs)
            if st.finalbody:
                bf, af = block(st.finalbody, res if outs else bound)
                return bf, alive and af
            return res, alive
        if isinstance(st, (ast.With, ast.AsyncWith)):
            nb = set(bound)
            for i in st.items:
                _reads(i.context_expr, nb, locals_, out)
                if i.optional_vars is not None:
                    nb |= _targets(i.optional_vars)
            return block(st.body, nb)
        if isinstance(st, ast.Expr):
            _reads(st.value, bound, locals_, out)
            return bound, True
        if isinstance(st, (ast.Import, ast.ImportFrom)):
            return bound | {(a.asname or a.name).split(".")[0] for a in st.names}, True
        if isinstance(st, ast.Delete):
            return bound, True
        if isinstance(st, ast.Assert):
            _reads(st.test, bound, locals_, out)
            return bound, True
        return bound, True

    block(node.body, set())
    # de-duplicate by (name, line)
    seen, res = set(), []
    for nm, n in out:
        k = (nm, n.lineno)
        if k not in seen:
            seen.add(k)
            res.append((nm, n))
    return res
