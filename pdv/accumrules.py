"""Accumulators that span a loop are created before it.

A local bound to a fresh mutable container at the top level of a loop body, grown inside that loop, and read after the
loop (in the enclosing block) only holds what the LAST iteration put in it.
"""
import ast

from .model import walk_no_nested, norm
from .aliasrules import _is_mutable_ctor, _GROW


def reset_accumulators(func_node):
    res = []
    for blk_owner in ast.walk(func_node):
        for fld in ("body", "orelse", "finalbody"):
            blk = getattr(blk_owner, fld, None)
            if not isinstance(blk, list) or not blk or not isinstance(blk[0], ast.stmt):
                continue
            for i, l in enumerate(blk):
                if not isinstance(l, (ast.For, ast.While)):
                    continue
                for st in l.body:
                    if not (isinstance(st, ast.Assign) and len(st.targets) == 1 and isinstance(st.targets[0], ast.Name) and _is_mutable_ctor(st.value)):
                        continue
                    name = st.targets[0].id
                    grown = any(isinstance(c, ast.Call) and isinstance(c.func, ast.Attribute) and c.func.attr in _GROW and isinstance(c.func.value, ast.Name) and c.func.value.id == name
                                for c in ast.walk(l)) or any(isinstance(a, ast.Assign) and isinstance(a.targets[0], ast.Subscript) and isinstance(a.targets[0].value, ast.Name) and a.targets[0].value.id == name for a in ast.walk(l))
                    if not grown:
                        continue
                    # consumed inside the loop after being filled (appended to an outer structure, returned, passed on)? then it is a per-iteration buffer
                    later_reads = [n for s2 in blk[i + 1:] for n in ast.walk(s2) if isinstance(n, ast.Name) and n.id == name and isinstance(n.ctx, ast.Load)]
                    rebound_after = any(isinstance(a, ast.Assign) and any(isinstance(t, ast.Name) and t.id == name for t in a.targets) for s2 in blk[i + 1:] for a in ast.walk(s2))
                    if later_reads and not rebound_after:
                        res.append((l, st, name, later_reads[0]))
    return res


def check_accumulators(ctx, rule, module_names, min_loops=1):
    repo = ctx.repo
    n = 0
    for mn in module_names:
        m = repo.module(mn)
        for f in repo.all_functions(m):
            loops = [l for l in walk_no_nested(f.node) if isinstance(l, (ast.For, ast.While))]
            if not loops:
                continue
            n += len(loops)
            hits = reset_accumulators(f.node)
            for l, st, name, rd in hits:
                ctx.bad(rule, f"{f.qualname}: `{name}` is re-created at every iteration and read after the loop", f, st,
                        f"`{name}` is filled inside the loop at line {l.lineno} and used after it (line {rd.lineno}): created inside the loop body it only keeps the "
                        "last iteration's content (e.g. the nodes of the last tree of a forest)")
            if not hits:
                ctx.ok(rule, f"{f.qualname}: {len(loops)} loops", f, f.node, sample=False)
    if n < min_loops:
        ctx.defer(f"{rule}: only {n} loops seen in {module_names}")
    return n
